//! C06: decoder memory is bounded by the configured limit, not by what the file claims.
//! (a) the allocation ledger: Limits::bytes remaining after a run == the model's budget (hook verif_limit_remaining);
//! (b) peak live heap bytes (counting global allocator) of hostile inputs x limits x transformations x decoding paths.
use crate::alloc;
use crate::gen::*;
use crate::pngbuild::*;
use crate::streamrun::*;
use crate::util::*;
use png::{Decoder, Limits, Transformations};
use std::io::Cursor;

fn viol(kind: &str, detail: Vec<(&str, String)>) -> String {
    let mut kv = vec![("kind", jstr(kind)), ("class", jstr(kind))];
    kv.extend(detail);
    jobj(&kv)
}

/// the fixed linear function of L (numerals fixed here, never tuned at run time): 128*L + 2 MiB.
/// Why 128: the largest bookkeeping overhead per accounted byte is a minimal tEXt chunk ("k\0": 2 bytes taken from the budget) which
/// buys one TEXtChunk (two Strings = 48 bytes) inside a Vec that doubles (capacity <= 2n, old + new buffer live during a
/// reallocation: <= 3n elements) plus the keyword's heap byte: <= 72.5 bytes per accounted byte; measured 28-31 at L = 1 MiB.
/// The row side (raw row <= 2 x output line, unfiltering buffer <= 2 rows + 256 KiB, doubling) stays below 16*L.
pub fn bound(limit: usize) -> usize {
    128usize.saturating_mul(limit).saturating_add(2 << 20)
}

#[derive(Clone, Copy, Debug, PartialEq)]
enum Path {
    Info,
    Frames,
    Rows,
    InterlacedRows,
    SkipFrames,
    Finish,
}

struct Measured {
    peak: usize,
    outcome: String,
}

fn err_class(e: &png::DecodingError) -> String {
    match e {
        png::DecodingError::LimitsExceeded => "LimitsExceeded".into(),
        png::DecodingError::Format(_) => "Format".into(),
        png::DecodingError::IoError(_) => "Io".into(),
        png::DecodingError::Parameter(_) => "Parameter".into(),
    }
}

/// Decode `file` along `path`; peak = peak live heap bytes attributable to the library (caller-supplied buffers subtracted).
fn measure(file: &[u8], limit: usize, tr: Transformations, path: Path, max_rows: usize) -> Measured {
    let m0 = alloc::mark();
    let mut d = Decoder::new_with_limits(Cursor::new(file), Limits { bytes: limit });
    d.set_transformations(tr);
    let mut reader = match d.read_info() {
        Ok(r) => r,
        Err(e) => { let peak = alloc::peak_above(m0); return Measured { peak, outcome: format!("read_info:{}", err_class(&e)) }; }
    };
    let mut peak = alloc::peak_above(m0);
    let mut outcome = "ok".to_string();
    match path {
        Path::Info => {}
        Path::Finish => { if let Err(e) = reader.finish() { outcome = format!("finish:{}", err_class(&e)); } peak = peak.max(alloc::peak_above(m0)); }
        Path::Rows | Path::InterlacedRows => {
            for _ in 0..max_rows {
                let r = if path == Path::Rows { reader.next_row().map(|r| r.is_some()) } else { reader.next_interlaced_row().map(|r| r.is_some()) };
                match r { Ok(true) => {}, Ok(false) => break, Err(e) => { outcome = format!("row:{}", err_class(&e)); break; } }
            }
            peak = peak.max(alloc::peak_above(m0));
        }
        Path::SkipFrames => {
            for _ in 0..6 {
                match reader.next_frame_info() { Ok(_) => {}, Err(e) => { outcome = format!("next_frame_info:{}", err_class(&e)); break; } }
            }
            for _ in 0..4 { if reader.next_row().is_err() { break; } }
            peak = peak.max(alloc::peak_above(m0));
        }
        Path::Frames => {
            let sz = reader.output_buffer_size();
            if sz > (1 << 28) {
                outcome = "buffer-too-large-for-harness".into();
            } else {
                let mut buf = vec![0u8; sz];
                let l1 = alloc::mark(); // live now = m0 + library-held + sz
                for _ in 0..4 {
                    match reader.next_frame(&mut buf) { Ok(_) => {}, Err(e) => { outcome = format!("next_frame:{}", err_class(&e)); break; } }
                }
                let p2 = (l1 + alloc::peak_above(l1)).saturating_sub(m0).saturating_sub(sz);
                peak = peak.max(p2);
                drop(buf);
            }
        }
    }
    drop(reader);
    Measured { peak, outcome }
}

struct Scenario {
    name: String,
    file: Vec<u8>,
}

fn zeros_z(n: usize) -> Vec<u8> {
    zlib_flate2(&vec![0u8; n], 9)
}

fn idat_chunks(z: &[u8], chunk: usize) -> Vec<Chunk> {
    z.chunks(chunk.max(1)).map(|c| Chunk::new(b"IDAT", c.to_vec())).collect()
}

fn scenarios(rng: &mut Rng, thorough: bool) -> Vec<Scenario> {
    let mut v = vec![];
    let bomb = if thorough { 400_000_000 } else { 60_000_000 };
    let zbomb = zeros_z(bomb);
    // 1. decompression bombs in IDAT: tiny image, stream inflating to `bomb` bytes
    for (w, h, c, d) in [(1u32, 1u32, 0u8, 8u8), (4, 4, 6, 16), (1000, 1, 2, 8)] {
        let mut ch = vec![ihdr(w, h, d, c, 0)];
        ch.extend(idat_chunks(&zbomb, 1 << 16));
        ch.push(Chunk::new(b"IEND", vec![]));
        v.push(Scenario { name: format!("idat-bomb-{}x{}-c{}d{}", w, h, c, d), file: assemble(&ch) });
    }
    // a large image of zeros that really needs its data (many rows of moderate size)
    for (w, h, c, d, il) in [(30000u32, 2000u32, 0u8, 1u8, 0u8), (5000, 3000, 6, 16, 0), (4000, 3000, 2, 8, 1), (60000, 900, 3, 1, 0)] {
        let bits = match c { 0 | 3 => 1, 2 => 3, 4 => 2, _ => 4 } * d as usize;
        let raw = if il == 0 { h as usize * (1 + (w as usize * bits + 7) / 8) } else { crate::refimpl::adam7_rows_ref(w, h).iter().map(|(_, _, lw)| 1 + (*lw as usize * bits + 7) / 8).sum() };
        let mut ch = vec![ihdr(w, h, d, c, il)];
        if c == 3 { ch.push(Chunk::new(b"PLTE", vec![1, 2, 3, 4, 5, 6])); }
        ch.extend(idat_chunks(&zeros_z(raw), 1 << 15));
        ch.push(Chunk::new(b"IEND", vec![]));
        v.push(Scenario { name: format!("big-image-{}x{}-c{}d{}i{}", w, h, c, d, il), file: assemble(&ch) });
    }
    // 2. headers declaring enormous dimensions
    for (w, h, c, d, il) in [(0x7fff_ffffu32, 0x7fff_ffffu32, 6u8, 16u8, 0u8), (0x7fff_ffff, 1, 6, 16, 0), (1, 0x7fff_ffff, 0, 1, 1), (0x2000_0000, 0x2000_0000, 2, 8, 1), (1 << 20, 1 << 20, 6, 16, 0), (3_000_000, 3, 6, 16, 0)] {
        let mut ch = vec![ihdr(w, h, d, c, il)];
        ch.extend(idat_chunks(&zeros_z(1 << 20), 1 << 16));
        ch.push(Chunk::new(b"IEND", vec![]));
        v.push(Scenario { name: format!("huge-dims-{}x{}-c{}d{}i{}", w, h, c, d, il), file: assemble(&ch) });
    }
    // 3b. the same in a CONTINUATION chunk of the image data: a first IDAT (fdAT) with the beginning of the zlib stream, then a data chunk whose
    // length field declares 256 MiB .. 2 GiB with only the rest of the stream (or nothing) behind it
    for (w, h) in [(64u32, 64u32), (300, 40)] {
        let raw: Vec<u8> = (0..h).flat_map(|r| std::iter::once(0u8).chain((0..w).map(move |x| (x as u8).wrapping_mul(7).wrapping_add(r as u8)))).collect();
        let z = zlib_flate2(&raw, 6);
        let half = z.len() / 2;
        for (len, rest) in [(0x1000_0000u32, true), (0x7fff_ffff, true), (0x7fff_ffff, false), (0x4000_0000, true)] {
            // still image: IDAT + oversized IDAT
            let mut f = assemble(&[ihdr(w, h, 8, 0, 0), Chunk::new(b"IDAT", z[..half].to_vec())]);
            f.extend_from_slice(&len.to_be_bytes());
            f.extend_from_slice(b"IDAT");
            if rest { f.extend_from_slice(&z[half..]); }
            v.push(Scenario { name: format!("continuation-len-IDAT-{}x{}-{:#x}-{}", w, h, len, rest), file: f });
            // animation: complete first frame, second frame = fdAT + oversized fdAT
            let mut first = 1u32.to_be_bytes().to_vec(); first.extend_from_slice(&z[..half]);
            let mut f = assemble(&[ihdr(w, h, 8, 0, 0), actl_chunk(2, 0), fctl_chunk(0, w, h, 0, 0, 1, 10, 0, 0), Chunk::new(b"IDAT", z.clone()),
                fctl_chunk(1, w, h, 0, 0, 1, 10, 0, 0), fdat_chunk(2, &z[..half])]);
            let _ = first;
            f.extend_from_slice(&len.to_be_bytes());
            f.extend_from_slice(b"fdAT");
            f.extend_from_slice(&3u32.to_be_bytes());
            if rest { f.extend_from_slice(&z[half..]); }
            v.push(Scenario { name: format!("continuation-len-fdAT-{}x{}-{:#x}-{}", w, h, len, rest), file: f });
        }
    }
    // 3. chunk length fields near 2^31 (body shorter than declared: the stream just ends)
    for ty in [b"tEXt", b"zTXt", b"iTXt", b"iCCP", b"eXIf", b"prVt", b"PLTE", b"tRNS", b"IDAT", b"sBIT", b"fdAT", b"gAMA"] {
        for (len, body) in [(0x7fff_ffffu32, 200_000usize), (0x7fff_fff0, 10), (0x4000_0000, 3_000_000), (0xffff_ffff, 1000)] {
            let mut f = assemble(&[ihdr(8, 8, 8, 3, 0)]);
            f.extend_from_slice(&len.to_be_bytes());
            f.extend_from_slice(&ty[..]);
            f.extend(b"key\0\0".iter());
            f.extend(std::iter::repeat(0x41u8).take(body));
            v.push(Scenario { name: format!("chunk-len-{}-{:#x}-{}", String::from_utf8_lossy(&ty[..]), len, body), file: f });
        }
    }
    // 4. unbounded numbers of ancillary chunks
    let many = if thorough { 300_000 } else { 60_000 };
    for (ty, payload) in [(b"tEXt", b"key\0some text value that is stored".to_vec()), (b"zTXt", { let mut p = b"key\0\0".to_vec(); p.extend(zeros_z(1000)); p }),
                          (b"iTXt", b"key\0\0\0en\0k\0text".to_vec()), (b"prVt", vec![7u8; 40]), (b"eXIf", vec![b'I'; 100]), (b"gAMA", vec![0, 1, 0, 0]), (b"tIME", vec![0; 7])] {
        let mut ch = vec![ihdr(2, 2, 8, 0, 0)];
        for _ in 0..many { ch.push(Chunk::new(ty, payload.clone())); }
        ch.push(Chunk::new(b"IDAT", zeros_z(6)));
        for _ in 0..many / 4 { ch.push(Chunk::new(ty, payload.clone())); }
        ch.push(Chunk::new(b"IEND", vec![]));
        v.push(Scenario { name: format!("many-{}-x{}", String::from_utf8_lossy(&ty[..]), many), file: assemble(&ch) });
    }
    // minimal text chunks: the largest bookkeeping overhead per accounted byte (2 accounted bytes buy one TEXtChunk of two Strings)
    for (ty, payload) in [(b"tEXt", b"k\0".to_vec()), (b"iTXt", b"k\0\0\0\0\0".to_vec()), (b"zTXt", b"k\0\0".to_vec())] {
        let n = 600_000;
        let mut ch = vec![ihdr(2, 2, 8, 0, 0)];
        for _ in 0..n { ch.push(Chunk::new(ty, payload.clone())); }
        ch.push(Chunk::new(b"IDAT", zeros_z(6)));
        ch.push(Chunk::new(b"IEND", vec![]));
        v.push(Scenario { name: format!("many-minimal-{}-x{}", String::from_utf8_lossy(&ty[..]), n), file: assemble(&ch) });
    }
    // 5. expanding embedded streams: iCCP / zTXt / iTXt deflate bombs, and big plain chunks
    for inflated in [1_000_000usize, bomb] {
        let z = if inflated == bomb { zbomb.clone() } else { zeros_z(inflated) };
        for ty in [b"iCCP", b"zTXt", b"iTXt"] {
            let mut p = match &ty[..] { b"iCCP" => b"prof\0\0".to_vec(), b"zTXt" => b"key\0\0".to_vec(), _ => b"key\0\x01\0en\0k\0".to_vec() };
            p.extend_from_slice(&z);
            let mut ch = vec![ihdr(2, 2, 8, 0, 0), Chunk::new(ty, p)];
            ch.push(Chunk::new(b"IDAT", zeros_z(6)));
            ch.push(Chunk::new(b"IEND", vec![]));
            v.push(Scenario { name: format!("expanding-{}-{}", String::from_utf8_lossy(&ty[..]), inflated), file: assemble(&ch) });
        }
    }
    for (ty, n) in [(b"tEXt", 3_000_000usize), (b"eXIf", 3_000_000), (b"prVt", 5_000_000), (b"iTXt", 2_000_000), (b"prVt", 48_000_000), (b"tEXt", 40_000_000), (b"eXIf", 40_000_000)] {
        let mut p = b"key\0\0\0\0\0".to_vec();
        p.extend(std::iter::repeat(b'x').take(n));
        let ch = vec![ihdr(2, 2, 8, 0, 0), Chunk::new(ty, p), Chunk::new(b"IDAT", zeros_z(6)), Chunk::new(b"IEND", vec![])];
        v.push(Scenario { name: format!("big-chunk-{}-{}", String::from_utf8_lossy(&ty[..]), n), file: assemble(&ch) });
    }
    // 6. APNG: many large frames (frame skipping / abandoning paths)
    for (w, h, n) in [(2048u32, 2048u32, 5u32), (4096, 512, 8)] {
        let raw = h as usize * (1 + w as usize);
        let z = zeros_z(raw);
        let mut ch = vec![ihdr(w, h, 8, 0, 0), Chunk::new(b"acTL", [n.to_be_bytes(), 0u32.to_be_bytes()].concat())];
        let mut seq = 0u32;
        let fctl = |seq: u32| { let mut d = seq.to_be_bytes().to_vec(); d.extend_from_slice(&w.to_be_bytes()); d.extend_from_slice(&h.to_be_bytes()); d.extend_from_slice(&[0; 8]); d.extend_from_slice(&[0, 1, 0, 10, 0, 0]); Chunk::new(b"fcTL", d) };
        ch.push(fctl(seq)); seq += 1;
        ch.extend(idat_chunks(&z, 1 << 15));
        for _ in 1..n {
            ch.push(fctl(seq)); seq += 1;
            for c in z.chunks(1 << 15) { let mut d = seq.to_be_bytes().to_vec(); seq += 1; d.extend_from_slice(c); ch.push(Chunk::new(b"fdAT", d)); }
        }
        ch.push(Chunk::new(b"IEND", vec![]));
        v.push(Scenario { name: format!("apng-{}x{}x{}", w, h, n), file: assemble(&ch) });
    }
    // a frame whose stream carries far more data than the frame needs (bomb behind the last row), then another frame
    {
        let (w, h) = (64u32, 64u32);
        let mut ch = vec![ihdr(w, h, 8, 0, 0), Chunk::new(b"acTL", [2u32.to_be_bytes(), 0u32.to_be_bytes()].concat())];
        let fctl = |seq: u32| { let mut d = seq.to_be_bytes().to_vec(); d.extend_from_slice(&w.to_be_bytes()); d.extend_from_slice(&h.to_be_bytes()); d.extend_from_slice(&[0; 8]); d.extend_from_slice(&[0, 1, 0, 10, 0, 0]); Chunk::new(b"fcTL", d) };
        ch.push(fctl(0));
        ch.extend(idat_chunks(&zbomb, 1 << 16));
        ch.push(fctl(1));
        let mut seq = 2u32;
        for c in zbomb.chunks(1 << 16) { let mut d = seq.to_be_bytes().to_vec(); seq += 1; d.extend_from_slice(c); ch.push(Chunk::new(b"fdAT", d)); }
        ch.push(Chunk::new(b"IEND", vec![]));
        v.push(Scenario { name: "apng-bomb-behind-frames".into(), file: assemble(&ch) });
    }
    // a wide canvas whose first animation frame is tiny and whose later frame spans the canvas: every frame's row buffers must be charged
    for (w, il) in [(8_000_000u32, 0u8), (3_000_000, 1)] {
        let fctl = |seq: u32, fw: u32, fh: u32| { let mut d = seq.to_be_bytes().to_vec(); d.extend_from_slice(&fw.to_be_bytes()); d.extend_from_slice(&fh.to_be_bytes()); d.extend_from_slice(&[0; 8]); d.extend_from_slice(&[0, 1, 0, 10, 0, 0]); Chunk::new(b"fcTL", d) };
        let mut ch = vec![ihdr(w, 2, 8, 2, il), Chunk::new(b"acTL", [2u32.to_be_bytes(), 0u32.to_be_bytes()].concat())];
        ch.push(fctl(0, 1, 1));
        ch.push(Chunk::new(b"IDAT", zeros_z(4)));
        ch.push(fctl(1, w, 2));
        let mut d = 2u32.to_be_bytes().to_vec(); d.extend(zeros_z(2 * (1 + 3 * w as usize) + 64)); ch.push(Chunk::new(b"fdAT", d));
        ch.push(Chunk::new(b"IEND", vec![]));
        v.push(Scenario { name: format!("apng-tiny-first-frame-wide-canvas-{}-i{}", w, il), file: assemble(&ch) });
    }
    // random valid files (control group: the bound must not be violated by ordinary images either)
    for _ in 0..(if thorough { 60 } else { 12 }) {
        let b = valid_file(rng, &GenOpts { maxw: 300, maxh: 200, anc: true, animated: None });
        v.push(Scenario { name: format!("valid-{}", b.name), file: b.bytes });
    }
    v
}

fn ledger_cases(o: &mut Out, rng: &mut Rng, thorough: bool) {
    let n = if thorough { 1500 } else { 260 };
    for k in 0..n {
        // small files with accounted metadata: legal ancillary chunks, text of all kinds, iCCP, then mutations
        let an = rng.chance(1, 4);
        let mut b = valid_file(rng, &GenOpts { maxw: 5, maxh: 4, anc: true, animated: Some(an) }).bytes;
        if rng.chance(1, 2) {
            if let Some(mut chunks) = parse(&b) {
                let extra = match rng.below(5) {
                    0 => Chunk::new(b"tEXt", { let mut d = keyword(rng); d.push(0); let n = rng_len(rng); d.extend(latin1_text(rng, n)); d }),
                    1 => Chunk::new(b"zTXt", { let mut d = keyword(rng); d.extend_from_slice(&[0, 0]); let n = rng_len(rng); d.extend(zlib_flate2(&latin1_text(rng, n), 6)); d }),
                    2 => Chunk::new(b"iTXt", { let mut d = keyword(rng); d.extend_from_slice(&[0, 0, 0]); d.extend(b"en\0"); d.extend(b"kw\0"); let n = rng_len(rng); d.extend(utf8_text(rng, n)); d }),
                    3 => Chunk::new(b"iCCP", { let mut d = b"p\0\0".to_vec(); let n = rng_len(rng) * 3; d.extend(zlib_flate2(&vec![rng.byte(); n], 9)); d }),
                    _ => { let n = rng_len(rng); Chunk::new(b"eXIf", rng.bytes(n)) }
                };
                let pos = 1 + rng.below(chunks.len() as u64 - 1) as usize;
                chunks.insert(pos.min(chunks.len() - 1), extra);
                b = assemble(&chunks);
            }
        }
        if rng.chance(1, 4) { b = mutate_structural(&b, rng).1; }
        if b.len() > 1500 { continue; }
        let limit = *rng.pick(&[0usize, 5, 40, 200, 1000, 32768, 40000, 67108864]);
        let opts = *rng.pick(&[Opts::default(), Opts { ignore_text: true, ..Opts::default() }, Opts { ignore_iccp: true, ..Opts::default() }]);
        let sc: Vec<usize> = match rng.below(3) { 0 => vec![], 1 => vec![1], _ => vec![rng.range(2, 50) as usize] };
        let pieces = split_sched(&b, &sc);
        let r = run_l0(&pieces, opts, Some(limit));
        let sizes = if sc.is_empty() { "-".to_string() } else { sc.iter().map(|x| x.to_string()).collect::<Vec<_>>().join(",") };
        o.case(&format!("l0budget {} {} {} {}", opts.bits(), limit, sizes, hex(&b)), &r.limit_left.to_string(),
               &format!("ledger-{}-{}-{}", limit.min(3), r.limit_left != limit, k % 50), r.limit_left != limit);
        o.count(if r.limit_left != limit { "ledger.budget-used" } else { "ledger.budget-untouched" });
    }
}

/// chunks larger than the 32 KiB chunk buffer: its growth must be charged to the budget exactly as the model does
fn ledger_big_chunk_cases(o: &mut Out, rng: &mut Rng, thorough: bool) {
    for k in 0..(if thorough { 60 } else { 14 }) {
        let ty = *rng.pick(&[b"tEXt", b"prVt", b"eXIf", b"iTXt", b"zTXt"]);
        let n = *rng.pick(&[32760usize, 32768, 32769, 40000, 70000]);
        let mut p = b"key\0\0\0\0\0".to_vec();
        p.extend((0..n - 8).map(|i| b'a' + (i % 23) as u8));
        let file = assemble(&[ihdr(1, 1, 8, 0, 0), Chunk::new(ty, p), Chunk::new(b"IDAT", zlib_flate2(&[0, 0], 6)), Chunk::new(b"IEND", vec![])]);
        let limit = *rng.pick(&[0usize, 1000, 32768, 40000, 100000, 67108864]);
        let sc: Vec<usize> = match k % 3 { 0 => vec![], 1 => vec![4096], _ => vec![rng.range(1000, 50000) as usize] };
        let pieces = split_sched(&file, &sc);
        let r = run_l0(&pieces, Opts::default(), Some(limit));
        let sizes = if sc.is_empty() { "-".to_string() } else { sc.iter().map(|x| x.to_string()).collect::<Vec<_>>().join(",") };
        o.case(&format!("l0budget {} {} {} {}", Opts::default().bits(), limit, sizes, hex(&file)), &r.limit_left.to_string(),
               &format!("ledger-big-{}-{}-{}", String::from_utf8_lossy(&ty[..]), n, limit), true);
        o.count("ledger.big-chunk");
    }
}

/// the inflater's output buffer cursors after every decompress call (hook) vs the model (Model/ZlibBuf.v)
fn zbuf_cases(o: &mut Out, rng: &mut Rng, thorough: bool) {
    use png::{Decoded, StreamingDecoder};
    let mut files: Vec<(String, Vec<u8>)> = vec![];
    for _ in 0..(if thorough { 40 } else { 8 }) {
        let b = valid_file(rng, &GenOpts { maxw: 700, maxh: 500, anc: false, animated: Some(false) });
        files.push((b.name, b.bytes));
    }
    let im = crate::c01::far_match_image(rng, 200, 32768, 0);
    files.push((im.name.clone(), im.file.clone()));
    // a tiny image followed by far more data than it needs, and a big image of zeros
    let mut ch = vec![ihdr(3, 3, 8, 0, 0)];
    ch.extend(idat_chunks(&zeros_z(3_000_000), 1 << 16));
    ch.push(Chunk::new(b"IEND", vec![]));
    files.push(("tiny-with-3MB-stream".into(), assemble(&ch)));
    let mut ch = vec![ihdr(2000, 700, 8, 2, 1)];
    ch.extend(idat_chunks(&zeros_z(crate::refimpl::adam7_rows_ref(2000, 700).iter().map(|(_, _, lw)| 1 + *lw as usize * 3).sum()), 50_000));
    ch.push(Chunk::new(b"IEND", vec![]));
    files.push(("interlaced-2000x700".into(), assemble(&ch)));
    for (name, file) in files {
        let piece = *rng.pick(&[1usize << 20, 40_000, 4096, 700, 65_536, 33]);
        o.mark(&format!("zbuf {} piece={}", name, piece));
        let mut dec = StreamingDecoder::new();
        let mut image: Vec<u8> = vec![];
        let mut ks: Vec<String> = vec![];
        let mut states: Vec<String> = vec![];
        let mut max0: Option<usize> = None;
        let mut pos = 0usize;
        'outer: while pos < file.len() {
            let end = (pos + piece).min(file.len());
            let mut buf = &file[pos..end];
            while !buf.is_empty() {
                let before = dec.verif_zlib_buffer_state();
                let len0 = image.len();
                match dec.update(buf, &mut image) {
                    Err(_) => break 'outer,
                    Ok((n, ev)) => {
                        buf = &buf[n..];
                        match ev {
                            Decoded::ImageData => {
                                if max0.is_none() { max0 = Some(before.3); }
                                if !before.4 {
                                    let after = dec.verif_zlib_buffer_state();
                                    ks.push((image.len() - len0).to_string());
                                    states.push(format!("{}:{}:{}", after.0, after.1, after.2));
                                }
                            }
                            Decoded::ImageDataFlushed | Decoded::ImageEnd => break 'outer,
                            _ => {}
                        }
                    }
                }
                if ks.len() >= 4000 { break 'outer; }
            }
            pos = end;
        }
        if ks.is_empty() { continue; }
        let mx = match max0 { Some(m) if m != usize::MAX => m.to_string(), _ => "-".into() };
        o.case(&format!("zbuf {} {}", mx, ks.join(",")), &states.join(";"), &format!("zbuf-{}-{}", name.len() % 7, piece), ks.len() > 3);
        o.count("zbuf.files");
    }
}

fn rng_len(rng: &mut Rng) -> usize {
    *rng.pick(&[0usize, 1, 5, 30, 120])
}

pub fn run(a: &Args) {
    let mut o = Out::new(&a.out);
    let mut rng = Rng::new(a.seed);
    let thorough = a.tier == "thorough";
    ledger_cases(&mut o, &mut rng, thorough);
    ledger_big_chunk_cases(&mut o, &mut rng, thorough);
    zbuf_cases(&mut o, &mut rng, thorough);
    let scs = scenarios(&mut rng, thorough);
    let limits: Vec<usize> = if thorough { vec![64 << 10, 256 << 10, 1 << 20, 4 << 20, 16 << 20, 64 << 20] } else { vec![64 << 10, 256 << 10, 1 << 20, 16 << 20, 64 << 20] };
    let trs = [Transformations::IDENTITY, Transformations::EXPAND, Transformations::STRIP_16, Transformations::EXPAND | Transformations::STRIP_16, Transformations::ALPHA];
    let paths = [Path::Info, Path::Frames, Path::Rows, Path::InterlacedRows, Path::SkipFrames, Path::Finish];
    let mut worst: f64 = 0.0;
    let mut worst_name = String::new();
    for (si, sc) in scs.iter().enumerate() {
        for (li, &l) in limits.iter().enumerate() {
            // all paths for every scenario x limit; transformations rotate (all of them for the image-heavy scenarios in the thorough tier)
            for (pi, &p) in paths.iter().enumerate() {
                let tr_list: Vec<Transformations> = if thorough && (sc.name.starts_with("big-image") || sc.name.starts_with("huge-dims") || sc.name.starts_with("valid")) { trs.to_vec() } else { vec![trs[(si + li + pi) % trs.len()]] };
                for tr in tr_list {
                    o.mark(&format!("{} limit={} tr={:?} path={:?} file-len={}", sc.name, l, tr, p, sc.file.len()));
                    o.direct_checks += 1;
                    let file = &sc.file;
                    let r = guarded(|| measure(file, l, tr, p, 3000));
                    match r {
                        Err(m) => o.violation(viol("panic-while-decoding-hostile-input", vec![("scenario", jstr(&sc.name)), ("limit", l.to_string()), ("transformations", jstr(&format!("{:?}", tr))), ("path", jstr(&format!("{:?}", p))), ("panic", jstr(&m))])),
                        Ok(m) => {
                            let ratio = m.peak as f64 / bound(l) as f64;
                            if ratio > worst { worst = ratio; worst_name = format!("{} L={} {:?} {:?} peak={}", sc.name, l, tr, p, m.peak); }
                            o.count(&format!("outcome.{}", m.outcome));
                            o.count(&format!("scenario.{}", sc.name.split('-').take(2).collect::<Vec<_>>().join("-")));
                            o.distinct(&format!("{}-{}-{:?}-{}", sc.name, l, p, m.outcome));
                            if m.peak > bound(l) {
                                o.violation(viol("library-heap-exceeds-the-linear-bound-of-the-limit", vec![("scenario", jstr(&sc.name)), ("limit", l.to_string()), ("bound_128L_plus_2MiB", bound(l).to_string()),
                                    ("peak_library_heap", m.peak.to_string()), ("transformations", jstr(&format!("{:?}", tr))), ("path", jstr(&format!("{:?}", p))), ("outcome", jstr(&m.outcome)), ("file_len", sc.file.len().to_string())]));
                            }
                        }
                    }
                }
            }
        }
    }
    o.count(&format!("worst-peak-over-bound-permille.{}", (worst * 1000.0) as u64));
    eprintln!("C06 worst peak/bound = {:.3} at {}", worst, worst_name);
    o.mark("done");
    o.finish();
}

pub fn replay(_case: &str) -> String {
    "unknown-case".into()
}
