//! pngv: correspondence / search harness for the Coq models of image-png.
//! usage: pngv <prop> --tier quick|thorough --seed N --out DIR
//!        pngv <prop> --replay-case "<case line>"
mod c14;
mod alloc;
mod c01;
mod c02;
mod c03;
mod c04;
mod c05;
mod c06;
mod c07;
mod c08;
mod c09;
mod c10;
mod c11;
mod c12;
mod validator;
mod c13;
mod ops;
mod c16;
mod c17;
mod c18;
mod c19;
mod c20;
mod c15;
mod gen;
mod pngbuild;
mod readerrun;
mod streamrun;
mod refimpl;
mod util;

use util::Args;

#[global_allocator]
static GLOBAL: alloc::Counting = alloc::Counting;

fn main() {
    // keep panic messages out of stderr noise: the harness records them itself
    if std::env::var("VERIF_DEBUG").is_err() {
        std::panic::set_hook(Box::new(|_| {}));
    }
    let argv: Vec<String> = std::env::args().collect();
    if argv.len() < 2 {
        eprintln!("usage: pngv <prop> --tier T --seed N --out DIR");
        std::process::exit(2);
    }
    let prop = argv[1].clone();
    if prop == "summ" {
        // debugging aid: pngv summ <optbits> <tbits> <hex>
        let o = streamrun::Opts::from_bits(argv[2].parse().unwrap());
        println!("{}", readerrun::summarize(&util::unhex(&argv[4]), &[0], o, argv[3].parse().unwrap()).text());
        return;
    }
    let mut a = Args { tier: "quick".into(), seed: 1, out: "out".into(), replay: None, scale: 1 };
    let mut i = 2;
    while i < argv.len() {
        match argv[i].as_str() {
            "--tier" => {
                a.tier = argv[i + 1].clone();
                i += 1;
            }
            "--seed" => {
                a.seed = argv[i + 1].parse().unwrap_or(1);
                i += 1;
            }
            "--out" => {
                a.out = argv[i + 1].clone();
                i += 1;
            }
            "--replay-case" => {
                a.replay = Some(argv[i + 1].clone());
                i += 1;
            }
            _ => {}
        }
        i += 1;
    }
    a.scale = if a.tier == "thorough" { 20 } else { 1 };
    if let Some(case) = &a.replay {
        let r = match prop.as_str() {
            "C14" => c14::replay(case),
            "C15" => c15::replay(case),
            "C01" => c01::replay(case),
            "C02" => c02::replay(case),
            "C03" => c03::replay(case),
            "C04" => c04::replay(case),
            "C05" => c05::replay(case),
            "C07" => c07::replay(case),
            "C08" => c08::replay(case),
            "C09" => c09::replay(case),
            "C10" => c10::replay(case),
            "C11" => c11::replay(case),
            "C12" => c12::replay(case),
            "C13" => c13::replay(case),
            "C16" => c16::replay(case),
            "C18" => c18::replay(case),
            "C06" => c06::replay(case),
            "C17" => c17::replay(case),
            "C19" => c19::replay(case),
            "C20" => c20::replay(case),
            _ => "unknown-property".to_string(),
        };
        println!("{}", r);
        return;
    }
    match prop.as_str() {
        "C14" => c14::run(&a),
        "C15" => c15::run(&a),
        "C01" => c01::run(&a),
        "C02" => c02::run(&a),
        "C03" => c03::run(&a),
        "C04" => c04::run(&a),
        "C05" => c05::run(&a),
        "C07" => c07::run(&a),
        "C08" => c08::run(&a),
        "C09" => c09::run(&a),
        "C10" => c10::run(&a),
        "C11" => c11::run(&a),
        "C12" => c12::run(&a),
        "C13" => c13::run(&a),
        "C16" => c16::run(&a),
        "C18" => c18::run(&a),
        "C06" => c06::run(&a),
        "C17" => c17::run(&a),
        "C19" => c19::run(&a),
        "C20" => c20::run(&a),
        _ => {
            eprintln!("unknown property {}", prop);
            std::process::exit(2);
        }
    }
}
