//! Operation-sequence runner over the public Reader API: next_frame / next_row / next_interlaced_row / read_row /
//! next_frame_info / finish / getters, with an input that may grow between calls.  Every call runs under
//! catch_unwind; rows are re-assembled per frame so that every decoding path can be compared with the whole-frame
//! reference decode of the same frame.
use crate::readerrun::*;
use crate::refimpl::*;
use crate::streamrun::*;
use crate::util::*;
use std::cell::Cell;
use std::rc::Rc;

#[derive(Clone, Copy, Debug, PartialEq)]
pub enum Op {
    Frame,     // next_frame
    Row,       // next_row
    IRow,      // next_interlaced_row
    ReadRow,   // read_row
    FrameInfo, // next_frame_info
    Finish,    // finish
    Getters,   // info / output_* getters
    Grow(usize), // make that many more input bytes visible (0 = everything)
}

pub fn op_letter(o: &Op) -> String {
    match o {
        Op::Frame => "F".into(),
        Op::Row => "R".into(),
        Op::IRow => "I".into(),
        Op::ReadRow => "W".into(),
        Op::FrameInfo => "N".into(),
        Op::Finish => "X".into(),
        Op::Getters => "G".into(),
        Op::Grow(n) => format!("+{}", n),
    }
}

pub fn ops_string(ops: &[Op]) -> String {
    ops.iter().map(op_letter).collect::<Vec<_>>().join("")
}

/// frames larger than this are not decoded through next_frame by the op runner (row calls still run)
pub const OPS_MAX_BUF: usize = 1 << 22;

pub const ALPHABET: [Op; 7] = [Op::Frame, Op::Row, Op::IRow, Op::ReadRow, Op::FrameInfo, Op::Finish, Op::Getters];

/// One completed frame as seen through whatever mix of calls delivered it.
#[derive(Clone, Debug)]
pub struct Delivered {
    pub fctl: String,
    pub pixels: Vec<u8>,
    pub via: String,
    /// bytes per row and used bits per row (the remaining bits of the last byte of a row are padding, not pixels)
    pub line: usize,
    pub row_bits: usize,
}

/// clear the padding bits at the end of every row (they are not pixels: an interlaced decode leaves there whatever the buffer held)
pub fn mask_padding(px: &[u8], line: usize, row_bits: usize) -> Vec<u8> {
    let mut v = px.to_vec();
    if line == 0 || row_bits % 8 == 0 {
        return v;
    }
    let last = row_bits / 8;
    let keep = row_bits % 8;
    let mut y = 0;
    while y * line + last < v.len() {
        v[y * line + last] &= 0xFFu8 << (8 - keep);
        y += 1;
    }
    v
}

pub struct Trace {
    pub results: Vec<String>,
    /// number of completely delivered frames after each result
    pub delivered_after: Vec<usize>,
    pub delivered: Vec<Delivered>,
    pub panicked: Option<String>,
    pub fills: u64,
    pub max_zero_run: u64,
    /// frame calls made in the middle of a frame that came back with ANOTHER frame (C13: they must deliver the rest of the current one)
    pub left_frame: Vec<String>,
}

struct Cur {
    fctl: String,
    w: u32,
    h: u32,
    rows_done: usize,
    buf: Vec<u8>,
    via: String,
    started: bool,
}

/// Run `ops` after read_info (whose result is results[0]).  `visible0` = number of input bytes visible at the start.
pub fn run_ops(bytes: &[u8], sched: &[usize], visible0: usize, opts: Opts, tbits: u32, limit: Option<usize>, ops: &[Op], fill: u8) -> Trace {
    let pr = PieceReader::new(bytes.to_vec(), sched);
    let visible: Rc<Cell<usize>> = pr.visible.clone();
    let (fills, zr) = (pr.fills.clone(), pr.max_zero_run.clone());
    visible.set(visible0.min(bytes.len()));
    let mut tr = Trace { results: vec![], delivered_after: vec![], delivered: vec![], panicked: None, fills: 0, max_zero_run: 0, left_frame: vec![] };
    // read_info consumes the Decoder: with a growing input it can only be retried by building a new decoder, which is what we do
    let mut dec = Some(open_decoder(pr, opts, tbits, limit));
    let mut rd: Option<Rd> = None;
    let mut pending_ops = ops.iter();
    // header phase: read_header_info may be retried on the same Decoder; read_info once the whole header part is visible
    loop {
        let d = dec.as_mut().unwrap();
        // ... and the public size accessors of the header just read (they are computed from the declared dimensions)
        match guarded(|| d.read_header_info().map(|i| { let _ = (i.raw_bytes(), i.raw_row_length(), i.bytes_per_pixel(), i.bits_per_pixel(), i.size(), i.is_animated()); }).map_err(|e| res_err(&e))) {
            Err(m) => {
                tr.results.push(format!("H PANIC {}", m));
                tr.panicked = Some(m);
                return tr;
            }
            Ok(Ok(())) => {
                tr.results.push("H ok".into());
                break;
            }
            Ok(Err(e)) => {
                tr.results.push(format!("H {}", e));
                if e == "err:Io:UnexpectedEof" && visible.get() < bytes.len() {
                    // grow by the next Grow op if there is one, else reveal everything
                    match pending_ops.clone().next() {
                        Some(Op::Grow(n)) => {
                            pending_ops.next();
                            visible.set(if *n == 0 { bytes.len() } else { (visible.get() + n).min(bytes.len()) });
                        }
                        _ => visible.set(bytes.len()),
                    }
                    continue;
                }
                return tr;
            }
        }
    }
    // read_info cannot be retried (it consumes the decoder): give it the whole input unless the test is about truncation
    let d = dec.take().unwrap();
    match guarded(move || d.read_info().map_err(|e| res_err(&e))) {
        Err(m) => {
            tr.results.push(format!("RI PANIC {}", m));
            tr.panicked = Some(m);
            return tr;
        }
        Ok(Err(e)) => {
            tr.results.push(format!("RI {}", e));
            return tr;
        }
        Ok(Ok(r)) => {
            tr.results.push("RI ok".into());
            rd = Some(r);
        }
    }
    let rd = rd.as_mut().unwrap();
    let bits_pp = |rd: &Rd| {
        let (c, d) = rd.output_color_type();
        samples(c as u8) * d as usize
    };
    let mut cur = Cur { fctl: String::new(), w: 0, h: 0, rows_done: 0, buf: vec![], via: String::new(), started: false };
    let start_frame = |rd: &Rd, cur: &mut Cur, fill: u8| {
        let i = rd.info();
        let (w, h) = match &i.frame_control {
            Some(f) => (f.width, f.height),
            None => (i.width, i.height),
        };
        cur.fctl = i.frame_control.as_ref().map(fctl_str).unwrap_or_else(|| "none".into());
        cur.w = w;
        cur.h = h;
        cur.rows_done = 0;
        cur.via.clear();
        cur.started = true;
        let n = rd.output_line_size(w).saturating_mul(h as usize);
        cur.buf = vec![fill; n.min(OPS_MAX_BUF)];
    };
    for op in pending_ops {
        let letter = op_letter(op);
        let res: Result<String, String> = match op {
            Op::Grow(n) => {
                visible.set(if *n == 0 { bytes.len() } else { (visible.get() + n).min(bytes.len()) });
                Ok(format!("visible={}", visible.get()))
            }
            Op::Getters => guarded(|| {
                let (c, d) = rd.output_color_type();
                format!("{}x{} {}:{} line={} buf={} anim={}", rd.info().width, rd.info().height, c as u8, d as u8, rd.output_line_size(rd.info().width), rd.output_buffer_size(), rd.info().is_animated())
            }),
            Op::Finish => {
                let r = guarded(|| match rd.finish() {
                    Ok(()) => "ok".to_string(),
                    Err(e) => res_err(&e),
                });
                cur.started = false; // finish() abandons the rest of the current frame
                r
            }
            Op::FrameInfo => {
                let r = guarded(|| match rd.next_frame_info() {
                    Ok(f) => format!("ok {}", fctl_str(f)),
                    Err(e) => res_err(&e),
                });
                if let Ok(s) = &r {
                    if s.starts_with("ok") {
                        cur.started = false; // a new frame begins; whatever was assembled of the previous one is abandoned
                    }
                }
                r
            }
            Op::Frame => {
                let size = guarded(|| rd.output_buffer_size());
                match size {
                    Err(m) => Err(m),
                    Ok(sz) if sz > OPS_MAX_BUF => Ok("skip:buffer-too-big".into()),
                    Ok(sz) => {
                        // the buffer holds what the row calls have delivered of this frame so far (rest: fill pattern)
                        let mut buf = vec![fill; sz];
                        let had_rows = cur.started && cur.rows_done > 0;
                        let expected_rows = if !cur.started { 0 } else if rd.info().interlaced {
                            if (cur.w as u64 * cur.h as u64) > (1 << 22) { usize::MAX } else { adam7_rows_ref(cur.w, cur.h).len() }
                        } else { cur.h as usize };
                        let mid_frame = had_rows && cur.rows_done < expected_rows;
                        let cur_fctl = cur.fctl.clone();
                        if had_rows {
                            let n = cur.buf.len().min(sz);
                            buf[..n].copy_from_slice(&cur.buf[..n]);
                        }
                        let r = guarded(|| rd.next_frame(&mut buf).map_err(|e| res_err(&e)));
                        match r {
                            Err(m) => Err(m),
                            Ok(Err(e)) => {
                                if mid_frame && expected_rows != usize::MAX && e == "err:Param:PolledAfterEndOfImage" {
                                    tr.left_frame.push(format!("after {} of {} rows of frame [{}] next_frame reported the end of the image instead of delivering the remaining rows", cur.rows_done, expected_rows, cur_fctl));
                                }
                                Ok(format!("{} @{}", e, rd.info().frame_control.as_ref().map(fctl_str).unwrap_or_else(|| "none".into())))
                            }
                            Ok(Ok(oi)) => {
                                let n = oi.buffer_size().min(buf.len());
                                let fctl = rd.info().frame_control.as_ref().map(fctl_str).unwrap_or_else(|| "none".into());
                                if mid_frame && fctl != cur_fctl && expected_rows != usize::MAX {
                                    tr.left_frame.push(format!("after {} of {} rows of frame [{}] next_frame returned frame [{}]", cur.rows_done, expected_rows, cur_fctl, fctl));
                                }
                                let via = if had_rows { format!("{}F", cur.via) } else { "F".to_string() };
                                let rb = oi.width as usize * samples(oi.color_type as u8) * oi.bit_depth as usize;
                                tr.delivered.push(Delivered { fctl, pixels: buf[..n].to_vec(), via, line: oi.line_size, row_bits: rb });
                                cur.started = false;
                                let fc = rd.info().frame_control.as_ref().map(fctl_str).unwrap_or_else(|| "none".into());
                                Ok(format!("ok {}x{} {}:{} line={} n={} h={} fctl={}", oi.width, oi.height, oi.color_type as u8, oi.bit_depth as u8, oi.line_size, oi.buffer_size(), hash(&buf[..n]), fc))
                            }
                        }
                    }
                }
            }
            Op::Row | Op::IRow | Op::ReadRow => {
                // which row of which frame this will be (needed to place it)
                // rows of absurd declared width (hundreds of MB each) are exercised by C02 / C06 under limits, not by every op sequence here
                let too_wide = guarded(|| rd.output_line_size(rd.info().width)).map_or(false, |n| n > OPS_MAX_BUF * 4);
                let r: Result<Result<Option<(Option<png::Adam7Info>, Vec<u8>)>, String>, String> = match op {
                    _ if too_wide => Ok(Err("skip:row-buffer-too-big".to_string())),
                    Op::Row => guarded(|| rd.next_row().map(|o| o.map(|r| (None, r.data().to_vec()))).map_err(|e| res_err(&e))),
                    Op::IRow => guarded(|| {
                        rd.next_interlaced_row()
                            .map(|o| o.map(|r| (match r.interlace() { png::InterlaceInfo::Adam7(a) => Some(*a), _ => None }, r.data().to_vec())))
                            .map_err(|e| res_err(&e))
                    }),
                    _ => guarded(|| {
                        let n = rd.output_line_size(rd.info().width);
                        if n > OPS_MAX_BUF {
                            return Err("skip:row-buffer-too-big".to_string());
                        }
                        let mut b = vec![fill; n];
                        rd.read_row(&mut b).map(|o| o.map(|i| (match i { png::InterlaceInfo::Adam7(a) => Some(a), _ => None }, b))).map_err(|e| res_err(&e))
                    }),
                };
                match r {
                    Err(m) => Err(m),
                    Ok(Err(e)) => Ok(format!("{} @{}", e, rd.info().frame_control.as_ref().map(fctl_str).unwrap_or_else(|| "none".into()))),
                    Ok(Ok(None)) => {
                        let expected_rows = if !cur.started { 0 } else if rd.info().interlaced {
                            if (cur.w as u64 * cur.h as u64) > (1 << 22) { usize::MAX } else { adam7_rows_ref(cur.w, cur.h).len() }
                        } else { cur.h as usize };
                        if cur.started && cur.rows_done > 0 && cur.rows_done == expected_rows {
                            // all rows of the frame have been handed out by row calls (a frame abandoned by finish() / frame skipping is not "delivered")
                            let line = rd.output_line_size(cur.w);
                            tr.delivered.push(Delivered { fctl: cur.fctl.clone(), pixels: cur.buf.clone(), via: cur.via.clone(), line, row_bits: cur.w as usize * bits_pp(rd) });
                        }
                        cur.started = false;
                        Ok("none".into())
                    }
                    Ok(Ok(Some((a7, data)))) => {
                        if !cur.started {
                            start_frame(rd, &mut cur, fill);
                        }
                        cur.via.push_str(&letter);
                        let interlaced = rd.info().interlaced;
                        let bpp = bits_pp(rd);
                        let line = rd.output_line_size(cur.w);
                        let mut desc = String::new();
                        if interlaced && (cur.w as u64 * cur.h as u64) > (1 << 22) {
                            desc = "(too big to re-assemble)".into();
                        } else if interlaced {
                            let rows = adam7_rows_ref(cur.w, cur.h);
                            if let Some(&(p, l, lw)) = rows.get(cur.rows_done) {
                                let info = a7.unwrap_or_else(|| png::Adam7Info::new(p, l, lw));
                                desc = format!("{:?}", info);
                                let want_len = (lw as usize * bpp + 7) / 8;
                                let d = &data[..want_len.min(data.len())];
                                if bpp <= 64 && (cur.buf.len() >= line * cur.h as usize) {
                                    let _ = guarded(|| png::expand_interlaced_row(&mut cur.buf, line, d, &info, bpp as u8));
                                }
                            }
                        } else {
                            let off = cur.rows_done * line;
                            if off + line <= cur.buf.len() && data.len() >= line {
                                cur.buf[off..off + line].copy_from_slice(&data[..line]);
                            }
                        }
                        cur.rows_done += 1;
                        Ok(format!("some {} len={} h={} idx={} fctl={}", desc, data.len(), hash(&data), cur.rows_done - 1, cur.fctl))
                    }
                }
            }
        };
        while tr.delivered_after.len() < tr.results.len() {
            tr.delivered_after.push(0);
        }
        tr.delivered_after.push(tr.delivered.len());
        match res {
            Ok(s) => tr.results.push(format!("{} {}", letter, s)),
            Err(m) => {
                tr.results.push(format!("{} PANIC {}", letter, m));
                tr.panicked = Some(m);
                break;
            }
        }
    }
    tr.fills = fills.get();
    tr.max_zero_run = zr.get();
    tr
}

/// all op sequences of the given length over ALPHABET (by index)
pub fn nth_sequence(mut code: u64, len: usize) -> Vec<Op> {
    let mut v = vec![];
    for _ in 0..len {
        v.push(ALPHABET[(code % 7) as usize]);
        code /= 7;
    }
    v
}

pub fn random_ops(rng: &mut Rng, len: usize) -> Vec<Op> {
    (0..len)
        .map(|_| match rng.below(14) {
            0 | 1 => Op::Frame,
            2 | 3 | 4 => Op::Row,
            5 | 6 => Op::IRow,
            7 | 8 => Op::ReadRow,
            9 | 10 => Op::FrameInfo,
            11 => Op::Finish,
            _ => Op::Getters,
        })
        .collect()
}
