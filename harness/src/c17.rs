//! C17: metadata written by the encoder is read back unchanged; unrepresentable text is refused.
use crate::pngbuild::*;
use crate::util::*;
use crate::validator::inflate_exact;
use png::text_metadata::{ITXtChunk, TEXtChunk, ZTXtChunk};
use png::{BitDepth, BlendOp, ColorType, DisposeOp};
use std::io::Cursor;

fn viol(kind: &str, detail: Vec<(&str, String)>) -> String {
    let mut kv = vec![("kind", jstr(kind)), ("class", jstr(kind))];
    kv.extend(detail);
    jobj(&kv)
}

#[derive(Clone, Debug)]
enum TextItem {
    T { kw: String, text: String },
    Z { kw: String, text: String, pre: bool },
    I { kw: String, compressed: bool, lang: String, trans: String, text: String, pre: bool },
}

#[derive(Clone, Debug, PartialEq)]
struct Fc {
    w: u32,
    h: u32,
    x: u32,
    y: u32,
    dn: u16,
    dd: u16,
    dop: u8,
    bop: u8,
}

#[derive(Clone, Debug)]
struct Meta {
    color: u8,
    depth: u8,
    w: u32,
    h: u32,
    phys: Option<(u32, u32, u8)>,
    srgb: Option<u8>,
    gamma: Option<u32>,
    chrm: Option<[u32; 8]>,
    icc: Option<Vec<u8>>,
    exif: Option<Vec<u8>>,
    actl: Option<(u32, u32)>,
    sep_def: bool,
    plte: Option<Vec<u8>>,
    trns: Option<Vec<u8>>,
    texts: Vec<TextItem>,
    late_texts: Vec<TextItem>,
    frames: Vec<Fc>,
    via_setters: bool,
}

const SUB_GAMMA: u32 = 45455;
const SUB_CHRM: [u32; 8] = [31270, 32900, 64000, 33000, 30000, 60000, 15000, 6000];

fn color_of(c: u8) -> ColorType {
    match c { 0 => ColorType::Grayscale, 2 => ColorType::Rgb, 3 => ColorType::Indexed, 4 => ColorType::GrayscaleAlpha, _ => ColorType::Rgba }
}
fn depth_of(d: u8) -> BitDepth {
    match d { 1 => BitDepth::One, 2 => BitDepth::Two, 4 => BitDepth::Four, 8 => BitDepth::Eight, _ => BitDepth::Sixteen }
}
fn samples(c: u8) -> usize {
    match c { 0 | 3 => 1, 2 => 3, 4 => 2, _ => 4 }
}
fn sf(v: u32) -> png::ScaledFloat {
    png::ScaledFloat::from_scaled(v)
}
fn chrm_of(c: &[u32; 8]) -> png::SourceChromaticities {
    png::SourceChromaticities { white: (sf(c[0]), sf(c[1])), red: (sf(c[2]), sf(c[3])), green: (sf(c[4]), sf(c[5])), blue: (sf(c[6]), sf(c[7])) }
}
fn chrm_back(c: &png::SourceChromaticities) -> [u32; 8] {
    [c.white.0.into_scaled(), c.white.1.into_scaled(), c.red.0.into_scaled(), c.red.1.into_scaled(), c.green.0.into_scaled(), c.green.1.into_scaled(), c.blue.0.into_scaled(), c.blue.1.into_scaled()]
}
fn srgb_of(r: u8) -> png::SrgbRenderingIntent {
    match r { 0 => png::SrgbRenderingIntent::Perceptual, 1 => png::SrgbRenderingIntent::RelativeColorimetric, 2 => png::SrgbRenderingIntent::Saturation, _ => png::SrgbRenderingIntent::AbsoluteColorimetric }
}
fn dop_of(d: u8) -> DisposeOp {
    match d { 0 => DisposeOp::None, 1 => DisposeOp::Background, _ => DisposeOp::Previous }
}
fn bop_of(b: u8) -> BlendOp {
    match b { 0 => BlendOp::Source, _ => BlendOp::Over }
}

fn u32_val(rng: &mut Rng) -> u32 {
    match rng.below(6) { 0 => 0, 1 => 1, 2 => u32::MAX, 3 => 0x8000_0000, 4 => rng.range(0, 100000) as u32, _ => rng.next() as u32 }
}

fn latin1_string(rng: &mut Rng, n: usize, allow_nl: bool) -> String {
    (0..n).map(|_| match rng.below(6) {
        0 => char::from(rng.range(32, 126) as u8),
        1 => char::from(rng.range(161, 255) as u8),
        2 => char::from(rng.range(128, 160) as u8),
        3 => if allow_nl { '\n' } else { ' ' },
        4 => char::from(rng.range(1, 31) as u8),
        _ => char::from(rng.range(1, 255) as u8),
    }).collect()
}
fn keyword(rng: &mut Rng) -> String {
    let n = *rng.pick(&[1usize, 1, 2, 5, 12, 40, 78, 79]);
    latin1_string(rng, n, false)
}
fn unicode_string(rng: &mut Rng, n: usize) -> String {
    String::from_utf8(crate::gen::utf8_text(rng, n)).unwrap().replace('\0', "x")
}
fn blob(rng: &mut Rng, n: usize) -> Vec<u8> {
    match rng.below(3) { 0 => rng.bytes(n), 1 => vec![rng.byte(); n], _ => (0..n).map(|i| (i % 251) as u8 ^ (i / 1000) as u8).collect() }
}

fn random_text(rng: &mut Rng, big: usize) -> TextItem {
    let n = *rng.pick(&[0usize, 1, 3, 40, 300, 3000, big]);
    match rng.below(3) {
        0 => TextItem::T { kw: keyword(rng), text: latin1_string(rng, n, true) },
        1 => TextItem::Z { kw: keyword(rng), text: latin1_string(rng, n, true), pre: rng.chance(1, 2) },
        _ => TextItem::I {
            kw: keyword(rng),
            compressed: rng.chance(1, 2),
            lang: rng.pick(&["", "en", "en-US", "x-klingon", "zh-Hant-TW"]).to_string(),
            trans: { let k = *rng.pick(&[0usize, 1, 7, 60]); unicode_string(rng, k) },
            text: unicode_string(rng, n.min(40000)),
            pre: rng.chance(1, 3),
        },
    }
}

fn random_meta(rng: &mut Rng, thorough: bool) -> Meta {
    let (color, depth) = *rng.pick(&[(0u8, 1u8), (0, 2), (0, 4), (0, 8), (0, 16), (2, 8), (2, 16), (3, 1), (3, 2), (3, 4), (3, 8), (4, 8), (4, 16), (6, 8), (6, 16)]);
    let w = rng.range(1, 9) as u32;
    let h = rng.range(1, 7) as u32;
    let big = if thorough { 400_000 } else { 70_000 };
    let opt = |rng: &mut Rng| rng.chance(1, 2);
    let srgb = if opt(rng) { Some(rng.below(4) as u8) } else { None };
    let gamma = if opt(rng) { Some(if rng.chance(1, 3) { SUB_GAMMA } else { u32_val(rng) }) } else { None };
    let chrm = if opt(rng) {
        Some(if rng.chance(1, 3) { SUB_CHRM } else { let mut c = [0u32; 8]; for v in c.iter_mut() { *v = u32_val(rng); } c })
    } else { None };
    let sizes = [0usize, 1, 2, 100, 5000, 33000, big];
    let icc = if opt(rng) { let n = *rng.pick(&sizes); Some(blob(rng, n)) } else { None };
    let exif = if opt(rng) { let n = *rng.pick(&sizes); Some(blob(rng, n)) } else { None };
    let plte = if color == 3 || ((color == 2 || color == 6) && rng.chance(1, 4)) {
        let maxn = if color == 3 { 1usize << depth } else { 256 };
        let k = *rng.pick(&[1usize, 2, maxn / 2 + 1, maxn]);
        Some(rng.bytes(3 * k.min(maxn).max(1)))
    } else { None };
    let trns = if !opt(rng) { None } else {
        match color {
            3 => { let k = plte.as_ref().unwrap().len() / 3; let n = rng.range(1, k as u64) as usize; Some(rng.bytes(n)) }
            0 => { let v = (rng.next() as u16) & (((1u32 << depth) - 1) as u16); Some(v.to_be_bytes().to_vec()) }
            2 => { let mut t = vec![]; for _ in 0..3 { let v = (rng.next() as u16) & (((1u32 << depth) - 1) as u16); t.extend_from_slice(&v.to_be_bytes()); } Some(t) }
            _ => None,
        }
    };
    let animated = rng.chance(2, 5);
    let nframes = if animated { rng.range(1, 4) as u32 } else { 1 };
    let sep_def = animated && rng.chance(1, 3);
    let mut frames = vec![];
    for k in 0..(nframes + sep_def as u32) {
        let full = k == 0;
        let fw = if full { w } else { rng.range(1, w as u64) as u32 };
        let fh = if full { h } else { rng.range(1, h as u64) as u32 };
        frames.push(Fc {
            w: fw, h: fh,
            x: if full { 0 } else { rng.range(0, (w - fw) as u64) as u32 },
            y: if full { 0 } else { rng.range(0, (h - fh) as u64) as u32 },
            dn: { let r = rng.next() as u16; *rng.pick(&[0u16, 1, 100, 65535, r]) },
            dd: { let r = rng.next() as u16; *rng.pick(&[0u16, 1, 100, 65535, r]) },
            dop: rng.below(3) as u8,
            bop: rng.below(2) as u8,
        });
    }
    let nt = *rng.pick(&[0usize, 0, 1, 2, 5]);
    Meta {
        color, depth, w, h,
        phys: if opt(rng) { Some((u32_val(rng), u32_val(rng), rng.below(2) as u8)) } else { None },
        srgb, gamma, chrm, icc, exif,
        actl: if animated { Some((nframes, u32_val(rng))) } else { None },
        sep_def, plte, trns,
        texts: (0..nt).map(|_| random_text(rng, big)).collect(),
        late_texts: (0..*rng.pick(&[0usize, 0, 1, 2])).map(|_| random_text(rng, 3000)).collect(),
        frames,
        via_setters: rng.chance(1, 2),
    }
}

fn build_ztxt(kw: &str, text: &str, pre: bool) -> Result<ZTXtChunk, String> {
    let mut c = ZTXtChunk::new(kw, text);
    if pre { c.compress_text().map_err(|e| format!("{:?}", e))?; }
    Ok(c)
}
fn build_itxt(kw: &str, compressed: bool, lang: &str, trans: &str, text: &str, pre: bool) -> Result<ITXtChunk, String> {
    let mut c = ITXtChunk::new(kw, text);
    c.compressed = compressed;
    c.language_tag = lang.to_string();
    c.translated_keyword = trans.to_string();
    if pre { c.compress_text().map_err(|e| format!("{:?}", e))?; }
    Ok(c)
}

/// run the real encoder; Err(msg) = the encoder refused somewhere
fn encode(m: &Meta) -> Result<Vec<u8>, String> {
    let mut out = vec![];
    {
        let mut info = png::Info::with_size(m.w, m.h);
        info.color_type = color_of(m.color);
        info.bit_depth = depth_of(m.depth);
        if !m.via_setters {
            info.pixel_dims = m.phys.map(|(x, y, u)| png::PixelDimensions { xppu: x, yppu: y, unit: if u == 1 { png::Unit::Meter } else { png::Unit::Unspecified } });
            info.source_gamma = m.gamma.map(sf);
            info.source_chromaticities = m.chrm.as_ref().map(chrm_of);
            info.srgb = m.srgb.map(srgb_of);
            info.palette = m.plte.clone().map(Into::into);
            info.trns = m.trns.clone().map(Into::into);
        }
        info.icc_profile = m.icc.clone().map(Into::into);
        info.exif_metadata = m.exif.clone().map(Into::into);
        for t in &m.texts {
            match t {
                TextItem::T { kw, text } => info.uncompressed_latin1_text.push(TEXtChunk::new(kw.clone(), text.clone())),
                TextItem::Z { kw, text, pre } => info.compressed_latin1_text.push(build_ztxt(kw, text, *pre)?),
                TextItem::I { kw, compressed, lang, trans, text, pre } => info.utf8_text.push(build_itxt(kw, *compressed, lang, trans, text, *pre)?),
            }
        }
        let mut e = png::Encoder::with_info(&mut out, info).map_err(|e| format!("{:?}", e))?;
        if m.via_setters {
            if let Some((x, y, u)) = m.phys { e.set_pixel_dims(Some(png::PixelDimensions { xppu: x, yppu: y, unit: if u == 1 { png::Unit::Meter } else { png::Unit::Unspecified } })); }
            // NB: set_source_srgb clears the ICC profile (documented), order chosen so that the model's rule applies
            if let Some(g) = m.gamma { e.set_source_gamma(sf(g)); }
            if let Some(c) = &m.chrm { e.set_source_chromaticities(chrm_of(c)); }
            if let Some(r) = m.srgb { e.set_source_srgb(srgb_of(r)); }
            if let Some(p) = &m.plte { e.set_palette(p.clone()); }
            if let Some(t) = &m.trns { e.set_trns(t.clone()); }
        }
        if let Some((f, p)) = m.actl {
            e.set_animated(f, p).map_err(|e| format!("{:?}", e))?;
            e.set_sep_def_img(m.sep_def).map_err(|e| format!("{:?}", e))?;
            let f0 = &m.frames[if m.sep_def { 1 } else { 0 }.min(m.frames.len() - 1)];
            if !m.sep_def {
                e.set_frame_delay(f0.dn, f0.dd).map_err(|e| format!("{:?}", e))?;
                e.set_blend_op(bop_of(f0.bop)).map_err(|e| format!("{:?}", e))?;
                e.set_dispose_op(dop_of(f0.dop)).map_err(|e| format!("{:?}", e))?;
            }
        }
        let mut w = e.write_header().map_err(|e| format!("{:?}", e))?;
        let bits = samples(m.color) * m.depth as usize;
        for (k, f) in m.frames.iter().enumerate() {
            if m.actl.is_some() && (k > 0) {
                w.reset_frame_position().map_err(|e| format!("{:?}", e))?;
                w.set_frame_dimension(f.w, f.h).map_err(|e| format!("{:?}", e))?;
                w.set_frame_position(f.x, f.y).map_err(|e| format!("{:?}", e))?;
                w.set_frame_delay(f.dn, f.dd).map_err(|e| format!("{:?}", e))?;
                w.set_blend_op(bop_of(f.bop)).map_err(|e| format!("{:?}", e))?;
                w.set_dispose_op(dop_of(f.dop)).map_err(|e| format!("{:?}", e))?;
            }
            let (fw, fh) = if k == 0 { (m.w, m.h) } else { (f.w, f.h) };
            let data = vec![0u8; ((fw as usize * bits + 7) / 8) * fh as usize];
            w.write_image_data(&data).map_err(|e| format!("image {}: {:?}", k, e))?;
            if k == 0 {
                for t in &m.late_texts {
                    match t {
                        TextItem::T { kw, text } => w.write_text_chunk(&TEXtChunk::new(kw.clone(), text.clone())),
                        TextItem::Z { kw, text, pre } => w.write_text_chunk(&build_ztxt(kw, text, *pre)?),
                        TextItem::I { kw, compressed, lang, trans, text, pre } => w.write_text_chunk(&build_itxt(kw, *compressed, lang, trans, text, *pre)?),
                    }.map_err(|e| format!("late text: {:?}", e))?;
                }
            }
        }
        w.finish().map_err(|e| format!("{:?}", e))?;
    }
    Ok(out)
}

struct ReadBack {
    info: png::Info<'static>,
    fcs: Vec<Option<Fc>>,
}

fn decode(file: &[u8], nimages: usize) -> Result<ReadBack, String> {
    let mut d = png::Decoder::new(Cursor::new(file));
    d.set_transformations(png::Transformations::IDENTITY);
    let mut r = d.read_info().map_err(|e| format!("read_info: {:?}", e))?;
    let mut buf = vec![0u8; r.output_buffer_size()];
    let mut fcs = vec![];
    for k in 0..nimages {
        r.next_frame(&mut buf).map_err(|e| format!("next_frame {}: {:?}", k, e))?;
        fcs.push(r.info().frame_control.map(|f| Fc { w: f.width, h: f.height, x: f.x_offset, y: f.y_offset, dn: f.delay_num, dd: f.delay_den, dop: f.dispose_op as u8, bop: f.blend_op as u8 }));
    }
    r.finish().map_err(|e| format!("finish: {:?}", e))?;
    Ok(ReadBack { info: r.info().clone(), fcs })
}

fn ints(b: &[u8]) -> String {
    if b.is_empty() { "-".into() } else { b.iter().map(|x| x.to_string()).collect::<Vec<_>>().join(",") }
}
fn cps(s: &str) -> String {
    if s.is_empty() { "-".into() } else { s.chars().map(|c| (c as u32).to_string()).collect::<Vec<_>>().join(",") }
}
fn optints(o: &Option<Vec<u8>>) -> String {
    match o { None => "n".into(), Some(b) => ints(b) }
}

/// canonical payload: `split` = offset where a zlib stream starts (None: plain); the stream is replaced by 256,<inflated bytes>
fn canon(data: &[u8], split: Option<usize>) -> String {
    match split {
        None => ints(data),
        Some(k) if k <= data.len() => match inflate_exact(&data[k..]) {
            Ok(raw) => {
                let mut s: Vec<String> = data[..k].iter().map(|x| x.to_string()).collect();
                s.push("256".into());
                s.extend(raw.iter().map(|x| x.to_string()));
                s.join(",")
            }
            Err(e) => format!("BAD-ZLIB {}", e),
        },
        _ => "SHORT".into(),
    }
}
fn nul_after(data: &[u8], from: usize) -> Option<usize> {
    data[from..].iter().position(|b| *b == 0).map(|p| from + p)
}
fn canon_chunk(c: &Chunk) -> String {
    let split = match &c.ty {
        b"iCCP" | b"zTXt" => nul_after(&c.data, 0).map(|p| p + 2),
        b"iTXt" => (|| {
            let k = nul_after(&c.data, 0)?;
            if *c.data.get(k + 1)? != 1 { return None; }
            let l = nul_after(&c.data, k + 3)?;
            let t = nul_after(&c.data, l + 1)?;
            Some(t + 1)
        })(),
        _ => None,
    };
    canon(&c.data, split)
}

fn text_case(o: &mut Out, t: &TextItem, written: Option<&Chunk>) {
    let (case, class) = match t {
        TextItem::T { kw, text } => (format!("menc text {} {}", cps(kw), cps(text)), "tEXt"),
        TextItem::Z { kw, text, pre } => (format!("menc ztxt {} {} {}", cps(kw), *pre as u8, cps(text)), "zTXt"),
        TextItem::I { kw, compressed, lang, trans, text, .. } => (format!("menc itxt {} {} {} {} {}", cps(kw), *compressed as u8, cps(lang), ints(trans.as_bytes()), ints(text.as_bytes())), "iTXt"),
    };
    if case.len() > 200_000 { return; }
    let r = match written { Some(c) => format!("OK {}", canon_chunk(c)), None => "ERR".to_string() };
    o.case(&case, &r, &format!("text-{}-{}", class, written.is_some()), true);
}

fn expected_text_ok(t: &TextItem) -> bool {
    // a keyword, a language tag and a translated keyword end at their first zero byte: one that contains a NUL cannot be represented
    let kw_ok = |kw: &str| { let n = kw.chars().count(); n >= 1 && n <= 79 && kw.chars().all(|c| (c as u32) < 256 && c != '\0') };
    match t {
        TextItem::T { kw, text } | TextItem::Z { kw, text, .. } => kw_ok(kw) && text.chars().all(|c| (c as u32) < 256),
        TextItem::I { kw, lang, trans, .. } => kw_ok(kw) && lang.is_ascii() && !lang.contains('\0') && !trans.contains('\0'),
    }
}

fn check_meta(o: &mut Out, m: &Meta, tag: &str) {
    o.mark(&format!("{} {:?}", tag, m).chars().take(3000).collect::<String>());
    o.direct_checks += 1;
    let desc = |why: String, m: &Meta| vec![("why", jstr(&why)), ("meta", jstr(&format!("{:?}", m).chars().take(1500).collect::<String>()))];
    let enc = match guarded(|| encode(m)) {
        Err(p) => { o.violation(viol("encoder-panicked-on-metadata", desc(p, m))); return; }
        Ok(r) => r,
    };
    let all_text_ok = m.texts.iter().chain(m.late_texts.iter()).all(expected_text_ok);
    let file = match enc {
        Err(e) => {
            if all_text_ok { o.violation(viol("encoder-refused-representable-metadata", desc(e, m))); } else {
                o.count("refused-unrepresentable-text");
                // the model must refuse the same item
                let all: Vec<&TextItem> = m.texts.iter().chain(m.late_texts.iter()).collect();
                if all.len() == 1 { text_case(o, all[0], None); }
            }
            return;
        }
        Ok(f) => f,
    };
    if !all_text_ok {
        o.violation(viol("unrepresentable-text-was-written", desc("encoder returned Ok".into(), m)));
        return;
    }
    o.count(if m.actl.is_some() { "meta.animated" } else { "meta.still" });
    // ---- model correspondence on the header chunk list
    let chunks = match parse(&file) { Some(c) => c, None => { o.violation(viol("encoder-output-unparsable", desc(String::new(), m))); return; } };
    let hdr: Vec<&Chunk> = chunks.iter().skip(1).take_while(|c| !matches!(&c.ty, b"IDAT" | b"fcTL")).filter(|c| !matches!(&c.ty, b"tEXt" | b"zTXt" | b"iTXt")).collect();
    let total: usize = m.icc.as_ref().map_or(0, |b| b.len()) + m.exif.as_ref().map_or(0, |b| b.len());
    if total <= 40_000 {
        let got = hdr.iter().map(|c| format!("{}:{}", u32::from_be_bytes(c.ty), canon_chunk(c))).collect::<Vec<_>>().join(";");
        let case = format!("menc header {} {} {} {} {} {} {} {} {}",
            m.phys.map_or("n".into(), |(x, y, u)| format!("{},{},{}", x, y, u)), m.srgb.map_or("n".into(), |r| r.to_string()), m.gamma.map_or("n".into(), |g| g.to_string()),
            m.chrm.map_or("n".into(), |c| c.iter().map(|v| v.to_string()).collect::<Vec<_>>().join(",")), optints(&m.icc), optints(&m.exif),
            m.actl.map_or("n".into(), |(f, p)| format!("{},{}", f, p)), optints(&m.plte), optints(&m.trns));
        o.case(&case, &got, &format!("hdr-{}-{}-{}-{}-{}", m.srgb.is_some(), m.gamma.is_some(), m.chrm.is_some(), m.icc.is_some(), m.actl.is_some()), hdr.len() > 0);
    }
    // text payloads vs the model
    let tchunks: Vec<&Chunk> = chunks.iter().filter(|c| matches!(&c.ty, b"tEXt" | b"zTXt" | b"iTXt")).collect();
    {
        // order written: header texts per kind (tEXt*, zTXt*, iTXt*), then the late ones in call order
        let mut order: Vec<&TextItem> = vec![];
        order.extend(m.texts.iter().filter(|t| matches!(t, TextItem::T { .. })));
        order.extend(m.texts.iter().filter(|t| matches!(t, TextItem::Z { .. })));
        order.extend(m.texts.iter().filter(|t| matches!(t, TextItem::I { .. })));
        order.extend(m.late_texts.iter());
        if order.len() == tchunks.len() {
            for (t, c) in order.iter().zip(tchunks.iter()) { text_case(o, t, Some(c)); }
        } else {
            o.violation(viol("text-chunk-count-differs", desc(format!("{} written, {} given", tchunks.len(), order.len()), m)));
        }
    }
    // fcTL payloads vs the model
    for c in chunks.iter().filter(|c| &c.ty == b"fcTL" && c.data.len() == 26) {
        let g = |i: usize| u32::from_be_bytes([c.data[i], c.data[i + 1], c.data[i + 2], c.data[i + 3]]);
        let h = |i: usize| u16::from_be_bytes([c.data[i], c.data[i + 1]]);
        o.case(&format!("menc fctl {} {} {} {} {} {} {} {} {}", g(0), g(4), g(8), g(12), g(16), h(20), h(22), c.data[24], c.data[25]), &ints(&c.data), "fctl", true);
    }
    // ---- read back through the decoder
    let rb = match guarded(|| decode(&file, m.frames.len())) {
        Err(p) => { o.violation(viol("decoder-panicked-on-encoder-output", desc(p, m))); return; }
        Ok(Err(e)) => { o.violation(viol("decoder-rejects-encoder-output", desc(e, m))); return; }
        Ok(Ok(rb)) => rb,
    };
    let i = &rb.info;
    let mut diffs: Vec<String> = vec![];
    let mut cmp = |name: &str, ok: bool, detail: String| { if !ok { diffs.push(format!("{}: {}", name, detail)); } };
    cmp("pHYs", i.pixel_dims.map(|p| (p.xppu, p.yppu, matches!(p.unit, png::Unit::Meter) as u8)) == m.phys, format!("{:?} vs {:?}", i.pixel_dims, m.phys));
    cmp("sRGB", i.srgb.map(|r| r as u8) == m.srgb, format!("{:?} vs {:?}", i.srgb, m.srgb));
    if m.srgb.is_some() {
        cmp("gamma() with sRGB", i.gamma().map(|g| g.into_scaled()) == Some(SUB_GAMMA), format!("{:?}", i.gamma()));
        cmp("chromaticities() with sRGB", i.chromaticities().map(|c| chrm_back(&c)) == Some(SUB_CHRM), format!("{:?}", i.chromaticities()));
        cmp("gama_chunk with sRGB", i.gama_chunk.map(|g| g.into_scaled()) == m.gamma.filter(|g| *g == SUB_GAMMA), format!("{:?} vs {:?}", i.gama_chunk, m.gamma));
        cmp("chrm_chunk with sRGB", i.chrm_chunk.map(|c| chrm_back(&c)) == m.chrm.filter(|c| *c == SUB_CHRM), format!("{:?} vs {:?}", i.chrm_chunk, m.chrm));
        cmp("iCCP with sRGB", i.icc_profile.is_none(), "profile present although sRGB overrides it".into());
    } else {
        cmp("gamma()", i.gamma().map(|g| g.into_scaled()) == m.gamma, format!("{:?} vs {:?}", i.gamma(), m.gamma));
        cmp("gama_chunk", i.gama_chunk.map(|g| g.into_scaled()) == m.gamma, format!("{:?} vs {:?}", i.gama_chunk, m.gamma));
        cmp("chromaticities()", i.chromaticities().map(|c| chrm_back(&c)) == m.chrm, format!("{:?} vs {:?}", i.chromaticities(), m.chrm));
        cmp("iCCP", i.icc_profile.as_ref().map(|p| p.to_vec()) == m.icc, format!("{:?} vs {:?} bytes", i.icc_profile.as_ref().map(|p| p.len()), m.icc.as_ref().map(|p| p.len())));
    }
    cmp("eXIf", i.exif_metadata.as_ref().map(|p| p.to_vec()) == m.exif, format!("{:?} vs {:?} bytes", i.exif_metadata.as_ref().map(|p| p.len()), m.exif.as_ref().map(|p| p.len())));
    cmp("PLTE", i.palette.as_ref().map(|p| p.to_vec()) == m.plte, format!("{:?} vs {:?}", i.palette.as_ref().map(|p| p.len()), m.plte.as_ref().map(|p| p.len())));
    let want_trns = m.trns.as_ref().map(|t| if m.color != 3 && m.depth < 16 { t.iter().skip(1).step_by(2).cloned().collect::<Vec<u8>>() } else { t.clone() });
    cmp("tRNS", i.trns.as_ref().map(|p| p.to_vec()) == want_trns, format!("{:?} vs {:?}", i.trns, want_trns));
    cmp("acTL", i.animation_control.map(|a| (a.num_frames, a.num_plays)) == m.actl, format!("{:?} vs {:?}", i.animation_control, m.actl));
    for (k, f) in m.frames.iter().enumerate() {
        let want = if m.actl.is_none() || (m.sep_def && k == 0) { None } else { Some(f.clone()) };
        // the first animated frame written with the IDAT carries the header-time values; for sep_def the first fdAT frame is frames[1]
        let want = want.map(|mut f| { if k == 0 { f.w = m.w; f.h = m.h; f.x = 0; f.y = 0; } f });
        let got = rb.fcs.get(k).cloned().flatten();
        // with a separate default image, the decoder keeps no frame control while the default image is current
        cmp(&format!("fcTL of image {}", k), got == want, format!("{:?} vs {:?}", got, want));
    }
    // texts, per kind, in order
    let all: Vec<&TextItem> = m.texts.iter().chain(m.late_texts.iter()).collect();
    let want_t: Vec<(String, String)> = all.iter().filter_map(|t| if let TextItem::T { kw, text } = t { Some((kw.clone(), text.clone())) } else { None }).collect();
    let got_t: Vec<(String, String)> = i.uncompressed_latin1_text.iter().map(|t| (t.keyword.clone(), t.text.clone())).collect();
    cmp("tEXt list", got_t == want_t, format!("{} vs {} items", got_t.len(), want_t.len()));
    let want_z: Vec<(String, String)> = all.iter().filter_map(|t| if let TextItem::Z { kw, text, .. } = t { Some((kw.clone(), text.clone())) } else { None }).collect();
    let got_z: Vec<(String, String)> = i.compressed_latin1_text.iter().map(|t| (t.keyword.clone(), t.get_text().unwrap_or_else(|e| format!("<get_text error {:?}>", e)))).collect();
    cmp("zTXt list", got_z == want_z, format!("{} vs {} items", got_z.len(), want_z.len()));
    let want_i: Vec<(String, bool, String, String, String)> = all.iter().filter_map(|t| if let TextItem::I { kw, compressed, lang, trans, text, .. } = t { Some((kw.clone(), *compressed, lang.clone(), trans.clone(), text.clone())) } else { None }).collect();
    let got_i: Vec<(String, bool, String, String, String)> = i.utf8_text.iter().map(|t| (t.keyword.clone(), t.compressed, t.language_tag.clone(), t.translated_keyword.clone(), t.get_text().unwrap_or_else(|e| format!("<get_text error {:?}>", e)))).collect();
    cmp("iTXt list", got_i == want_i, format!("{} vs {} items", got_i.len(), want_i.len()));
    drop(cmp);
    o.distinct(&format!("{}-{}-{}-{}-{}-{}-{}-{}-{}", m.color, m.depth, m.srgb.is_some(), m.icc.as_ref().map_or(0, |b| b.len().min(3)), m.exif.is_some(), m.actl.is_some(), m.sep_def, all.len(), m.via_setters));
    if !diffs.is_empty() {
        let first = diffs[0].split(':').next().unwrap_or("").split(" of image").next().unwrap_or("").to_string();
        let mut d = desc(diffs.join(" | ").chars().take(1200).collect(), m);
        d.push(("file_len", file.len().to_string()));
        // zero-length chunks are never handed to a chunk parser by the decoder: the only item the encoder can write as a zero-length
        // chunk is an empty eXIf block (known finding; any other eXIf difference keeps the general class)
        if diffs.len() == 1 && first == "eXIf" && m.exif.as_ref().map_or(false, |e| e.is_empty()) && i.exif_metadata.is_none() {
            o.violation(viol("zero-length-eXIf-block-read-back-as-absent", d));
        } else {
            o.violation(viol(&format!("metadata-not-read-back-unchanged: {}", first), d));
        }
    }
}

fn refusal_cases(o: &mut Out, rng: &mut Rng) {
    let base = |texts: Vec<TextItem>, late: Vec<TextItem>| Meta {
        color: 0, depth: 8, w: 2, h: 2, phys: None, srgb: None, gamma: None, chrm: None, icc: None, exif: None, actl: None, sep_def: false, plte: None, trns: None,
        texts, late_texts: late, frames: vec![Fc { w: 2, h: 2, x: 0, y: 0, dn: 0, dd: 0, dop: 0, bop: 0 }], via_setters: false,
    };
    let bad_kw: Vec<String> = vec![String::new(), "k".repeat(80), "\u{e9}".repeat(80), "k".repeat(200), "key\u{100}".into(), "\u{20ac}".into(), "a\u{1f600}".into()];
    let good_edge: Vec<String> = vec!["k".into(), "k".repeat(79), "\u{ff}".repeat(79), " ".into()];
    for kw in bad_kw.iter().chain(good_edge.iter()) {
        for kind in 0..3 {
            for late in [false, true] {
                let t = match kind {
                    0 => TextItem::T { kw: kw.clone(), text: "x".into() },
                    1 => TextItem::Z { kw: kw.clone(), text: "x".into(), pre: rng.chance(1, 2) },
                    _ => TextItem::I { kw: kw.clone(), compressed: rng.chance(1, 2), lang: "en".into(), trans: "t".into(), text: "x".into(), pre: false },
                };
                // model case for the refusal itself
                let m = if late { base(vec![], vec![t]) } else { base(vec![t], vec![]) };
                check_meta(o, &m, "refusal");
            }
        }
    }
    for text in ["\u{100}", "abc\u{20ac}", "\u{e9}\u{1f600}x"] {
        for pre in [false] {
            for t in [TextItem::T { kw: "k".into(), text: text.into() }, TextItem::Z { kw: "k".into(), text: text.into(), pre }] {
                check_meta(o, &base(vec![t.clone()], vec![]), "refusal");
                check_meta(o, &base(vec![], vec![t]), "refusal");
            }
        }
    }
    // a NUL inside a keyword (all three kinds), a language tag or a translated keyword: the field would be read back cut short
    for kw in ["a\0b", "\0", "key\0", "\0key"] {
        for t in [TextItem::T { kw: kw.into(), text: "text".into() }, TextItem::Z { kw: kw.into(), text: "text".into(), pre: false },
                  TextItem::I { kw: kw.into(), compressed: false, lang: "en".into(), trans: "t".into(), text: "x".into(), pre: false }] {
            check_meta(o, &base(vec![t.clone()], vec![]), "refusal");
            check_meta(o, &base(vec![], vec![t]), "refusal");
        }
    }
    for (lang, trans) in [("e\0n", "t"), ("en", "t\0u"), ("\0", ""), ("en", "\0")] {
        for compressed in [false, true] {
            let t = TextItem::I { kw: "k".into(), compressed, lang: lang.into(), trans: trans.into(), text: "x".into(), pre: false };
            check_meta(o, &base(vec![t.clone()], vec![]), "refusal");
            check_meta(o, &base(vec![], vec![t]), "refusal");
        }
    }
    // NUL inside the TEXT of a tEXt / iTXt chunk is kept (the text is the rest of the chunk)
    for t in [TextItem::T { kw: "k".into(), text: "a\0b".into() }, TextItem::I { kw: "k".into(), compressed: false, lang: "".into(), trans: "".into(), text: "a\0b".into(), pre: false }] {
        check_meta(o, &base(vec![t.clone()], vec![]), "nul-in-text");
    }
    for lang in ["fran\u{e7}ais", "\u{4e2d}", "en\u{a0}"] {
        let t = TextItem::I { kw: "k".into(), compressed: false, lang: lang.into(), trans: "".into(), text: "x".into(), pre: false };
        check_meta(o, &base(vec![t.clone()], vec![]), "refusal");
        check_meta(o, &base(vec![], vec![t]), "refusal");
    }
}

/// per-frame control values set through a StreamWriter's own setters between the frames it carries (frame 0 is written with
/// write_image_data: a stream writer that starts on the IDAT frame of an animation is a separate known finding of C12)
fn stream_writer_frame_control_cases(o: &mut Out, rng: &mut Rng, thorough: bool) {
    use std::io::Write;
    for k in 0..(if thorough { 400 } else { 60 }) {
        let (w, h) = (rng.range(1, 6) as u32, rng.range(1, 5) as u32);
        let n = rng.range(2, 4) as usize;
        let fcs: Vec<Fc> = (0..n).map(|_| Fc { w, h, x: 0, y: 0, dn: rng.next() as u16, dd: rng.next() as u16, dop: rng.below(3) as u8, bop: rng.below(2) as u8 }).collect();
        o.mark(&format!("stream-writer frame control {}x{} {:?}", w, h, fcs));
        o.direct_checks += 1;
        let mut out = vec![];
        let r = guarded(|| -> Result<(), String> {
            let mut e = png::Encoder::new(&mut out, w, h);
            e.set_color(ColorType::Grayscale);
            e.set_depth(BitDepth::Eight);
            e.set_animated(n as u32, 0).map_err(|e| format!("{:?}", e))?;
            e.set_frame_delay(fcs[0].dn, fcs[0].dd).map_err(|e| format!("{:?}", e))?;
            e.set_blend_op(bop_of(fcs[0].bop)).map_err(|e| format!("{:?}", e))?;
            e.set_dispose_op(dop_of(fcs[0].dop)).map_err(|e| format!("{:?}", e))?;
            let mut wr = e.write_header().map_err(|e| format!("{:?}", e))?;
            let data = vec![7u8; (w * h) as usize];
            wr.write_image_data(&data).map_err(|e| format!("{:?}", e))?;
            // the stream writer emits the frame header of its first frame when it is created: that frame's values are set on the Writer
            wr.set_frame_delay(fcs[1].dn, fcs[1].dd).map_err(|e| format!("{:?}", e))?;
            wr.set_blend_op(bop_of(fcs[1].bop)).map_err(|e| format!("{:?}", e))?;
            wr.set_dispose_op(dop_of(fcs[1].dop)).map_err(|e| format!("{:?}", e))?;
            {
                let mut sw = wr.stream_writer_with_size(*[16usize, 64, 4096].get(k % 3).unwrap()).map_err(|e| format!("{:?}", e))?;
                for (j, f) in fcs.iter().enumerate().skip(1) {
                    // (a later frame's header is emitted by the first write after the previous frame is complete: its values are set just before)
                    if j >= 2 {
                        sw.set_frame_delay(f.dn, f.dd).map_err(|e| format!("{:?}", e))?;
                        sw.set_blend_op(bop_of(f.bop)).map_err(|e| format!("{:?}", e))?;
                        sw.set_dispose_op(dop_of(f.dop)).map_err(|e| format!("{:?}", e))?;
                    }
                    sw.write_all(&data).map_err(|e| format!("{:?}", e))?;
                }
                sw.finish().map_err(|e| format!("{:?}", e))?;
            }
            wr.finish().map_err(|e| format!("{:?}", e))
        });
        let detail = |why: String| vec![("why", jstr(&why)), ("frames", jstr(&format!("{:?}", fcs))), ("file", jstr(&hex(&out)))];
        match r {
            Err(p) => { o.violation(viol("encoder-panicked-on-metadata", detail(p))); continue; }
            Ok(Err(e)) => { o.violation(viol("encoder-refused-representable-metadata", detail(e))); continue; }
            Ok(Ok(())) => {}
        }
        match guarded(|| decode(&out, n)) {
            Err(p) => o.violation(viol("decoder-panicked-on-encoder-output", detail(p))),
            Ok(Err(e)) => o.violation(viol("decoder-rejects-encoder-output", detail(e))),
            Ok(Ok(rb)) => {
                let got: Vec<Option<Fc>> = rb.fcs.clone();
                let want: Vec<Option<Fc>> = fcs.iter().cloned().map(Some).collect();
                o.count("meta.stream-writer-frame-control");
                o.distinct(&format!("swfc-{}-{}-{}", w, h, n));
                if got != want {
                    o.violation(viol("metadata-not-read-back-unchanged: fcTL", detail(format!("read back {:?}", got))));
                }
            }
        }
    }
}

pub fn run(a: &Args) {
    let mut o = Out::new(&a.out);
    let mut rng = Rng::new(a.seed);
    let thorough = a.tier == "thorough";
    refusal_cases(&mut o, &mut rng);
    stream_writer_frame_control_cases(&mut o, &mut rng, thorough);
    // every enum member / boundary value once, alone
    let plain = Meta { color: 2, depth: 8, w: 3, h: 2, phys: None, srgb: None, gamma: None, chrm: None, icc: None, exif: None, actl: None, sep_def: false, plte: None, trns: None,
        texts: vec![], late_texts: vec![], frames: vec![Fc { w: 3, h: 2, x: 0, y: 0, dn: 0, dd: 0, dop: 0, bop: 0 }], via_setters: false };
    for r in 0..4u8 { for g in [None, Some(SUB_GAMMA), Some(1)] { for c in [None, Some(SUB_CHRM), Some([1u32; 8])] { for icc in [None, Some(vec![1u8, 2, 3])] { for vs in [false, true] {
        let mut m = plain.clone(); m.srgb = Some(r); m.gamma = g; m.chrm = c; m.icc = icc.clone(); m.via_setters = vs; check_meta(&mut o, &m, "enum");
        m.srgb = None; check_meta(&mut o, &m, "enum");
    } } } } }
    for v in [0u32, 1, 0x7fff_ffff, 0x8000_0000, u32::MAX] { for u in 0..2u8 {
        let mut m = plain.clone(); m.phys = Some((v, v ^ 1, u)); m.gamma = Some(v); m.chrm = Some([v; 8]); check_meta(&mut o, &m, "boundary");
    } }
    for dop in 0..3u8 { for bop in 0..2u8 { for sep in [false, true] {
        let mut m = plain.clone(); m.actl = Some((2, 0)); m.sep_def = sep;
        m.frames = (0..(2 + sep as usize)).map(|k| Fc { w: if k == 0 { 3 } else { 2 }, h: if k == 0 { 2 } else { 1 }, x: if k == 0 { 0 } else { 1 }, y: if k == 0 { 0 } else { 1 }, dn: 65535, dd: k as u16, dop, bop }).collect();
        check_meta(&mut o, &m, "frame-ops");
    } } }
    let n = if thorough { 6000 } else { 700 };
    for k in 0..n {
        let m = random_meta(&mut rng, thorough);
        check_meta(&mut o, &m, &format!("random {}", k));
    }
    o.mark("done");
    o.finish();
}

pub fn replay(_case: &str) -> String {
    "unknown-case".into()
}
