//! C19: encoder misuse and sink failures fail cleanly; Ok from finish means a complete stream with exactly one IEND;
//! a dropped writer never emits a second IEND; with sequence validation on, a wrong number of images is an error.
use crate::c12::*;
use crate::util::*;
use crate::validator::parse_strict;

fn viol(kind: &str, class: &str, detail: Vec<(&str, String)>) -> String {
    let mut kv = vec![("kind", jstr(kind)), ("class", jstr(class))];
    kv.extend(detail);
    jobj(&kv)
}

fn count_iend(b: &[u8]) -> usize {
    b.windows(8).filter(|w| *w == [0, 0, 0, 0, b'I', b'E', b'N', b'D']).count()
}

fn random_history(cfg: &WCfg, rng: &mut Rng) -> (Vec<WOp>, usize) {
    // anything goes: fewer/more images than declared, setters with illegal values, stream writes that stop mid-frame (via parts/fraction)
    let declared = match cfg.animated { Some((nf, _)) => nf as usize + cfg.sep as usize, None => 1 };
    let n_images = *rng.pick(&[declared, declared, declared, declared.saturating_sub(1), declared + 1, 0]);
    let mut ops = vec![];
    let mut images = 0;
    while images < n_images {
        match rng.below(12) {
            0 => ops.push(WOp::FrameDim(rng.range(0, cfg.w as u64 + 2) as u32, rng.range(0, cfg.h as u64 + 2) as u32)),
            1 => ops.push(WOp::FramePos(rng.range(0, cfg.w as u64 + 1) as u32, rng.range(0, cfg.h as u64 + 1) as u32)),
            2 => ops.push(if rng.chance(1, 2) { WOp::ResetDim } else { WOp::ResetPos }),
            3 => ops.push(WOp::Delay(rng.next() as u16, rng.next() as u16)),
            4 => ops.push(WOp::Blend(rng.below(2) as u8)),
            5 => ops.push(WOp::Dispose(rng.below(3) as u8)),
            6 => ops.push(WOp::RawChunk((0..rng.below(9)).map(|_| rng.byte()).collect())),
            7 => ops.push(WOp::Text(rng.below(3) as u8)),
            _ => {
                let stream = if rng.chance(1, 2) { Some(*rng.pick(&[0usize, 1, 3, 4, 5, 9, 64, 4096])) } else { None };
                ops.push(WOp::Image { stream, parts: (0..rng.below(3)).map(|_| rng.range(1, 20) as usize).collect() });
                images += 1;
            }
        }
    }
    if rng.chance(1, 4) {
        // finish through an owned stream writer, possibly stopping in the middle of the frame
        ops.push(WOp::IntoStream { size: *rng.pick(&[1usize, 5, 7, 64, 4096]), parts: (0..rng.below(3)).map(|_| rng.range(1, 20) as usize).collect(), fraction: *rng.pick(&[4u8, 4, 4, 2, 0]) });
    }
    (ops, declared)
}

/// true when `b` is the signature followed by whole chunks (the next byte would start a chunk)
fn at_chunk_boundary(b: &[u8]) -> bool {
    if b.len() < 8 { return false; }
    let mut i = 8;
    while i < b.len() {
        if i + 12 > b.len() { return false; }
        let len = u32::from_be_bytes([b[i], b[i + 1], b[i + 2], b[i + 3]]) as usize;
        i += 12 + len;
    }
    i == b.len()
}

/// Streaming histories in which the caller RETRIES a write / flush that failed because of a transient sink failure.
/// When the failure hit before any byte of a chunk was accepted (chunk boundary) nothing is torn, so once every failed call has
/// been retried successfully and the final finish() returns Ok, the sink must hold a complete stream that decodes to the pixels written.
fn retry_cases(o: &mut Out, rng: &mut Rng, thorough: bool) {
    use std::io::Write;
    for k in 0..(if thorough { 600 } else { 60 }) {
        let mut cfg = random_cfg(rng, Some(false));
        cfg.w = rng.range(1, 12) as u32;
        cfg.h = rng.range(1, 9) as u32;
        let bits = crate::refimpl::samples(cfg.color) * cfg.depth as usize;
        let rowlen = (cfg.w as usize * bits + 7) / 8;
        let data = rng.bytes(rowlen * cfg.h as usize);
        let size = *rng.pick(&[1usize, 5, 16, 64, 4096]);
        let part = *rng.pick(&[1usize, 3, rowlen, data.len()]);
        let short = if k % 3 == 0 { 3 } else { 0 };
        // returns (every failed call was retried with success, final finish Ok, number of API calls that returned Err)
        let history = |sink: Sink| -> Result<(bool, bool, usize), String> {
            guarded(|| {
                let mut e = png::Encoder::new(sink.clone(), cfg.w, cfg.h);
                e.set_color(color_of(cfg.color));
                e.set_depth(depth_of(cfg.depth));
                if let Some(p) = &cfg.palette { e.set_palette(p.clone()); }
                set_compression(&mut e, cfg.compression);
                e.set_filter(filter_of(cfg.filter));
                let mut w = match e.write_header() { Ok(w) => w, Err(_) => return (false, false, 1) };
                let mut all_retried = true;
                let mut errs = 0usize;
                {
                    let mut sw = match w.stream_writer_with_size(size) { Ok(s) => s, Err(_) => return (false, false, 1) };
                    let mut pos = 0;
                    while pos < data.len() {
                        let end = (pos + part).min(data.len());
                        match sw.write(&data[pos..end]) {
                            Ok(0) => return (false, false, errs),
                            Ok(n) => pos += n,
                            Err(_) => { errs += 1; match sw.write(&data[pos..end]) { Ok(n) if n > 0 => pos += n, _ => return (false, false, errs + 1) } }
                        }
                    }
                    if sw.flush().is_err() { errs += 1; if sw.flush().is_err() { return (false, false, errs + 1); } }
                    if sw.finish().is_err() { all_retried = false; errs += 1; }
                }
                let fin = w.finish().is_ok();
                if !fin { errs += 1; }
                (all_retried, fin, errs)
            })
        };
        let sink0 = Sink::new(short, None, false);
        o.mark(&format!("retry {:?} size={} part={} no-failure", cfg, size, part));
        let _ = history(sink0.clone());
        let total = sink0.0.borrow().calls;
        let idx: Vec<usize> = if total <= 60 || thorough { (0..total).collect() } else { (0..60).map(|_| rng.below(total as u64) as usize).collect() };
        for f in idx {
            let sink = Sink::new(short, Some(f), true);
            o.mark(&format!("retry {:?} size={} part={} fail-once-at={}", cfg, size, part, f));
            let r = history(sink.clone());
            o.direct_checks += 1;
            let st = sink.0.borrow();
            let detail = |why: &str| vec![("config", jstr(&format!("{:?}", cfg))), ("stream_buffer", size.to_string()), ("write_part", part.to_string()), ("sink_short_writes", short.to_string()),
                ("sink_fails_once_at_call", f.to_string()), ("why", jstr(why)), ("accepted", jstr(&hex(&st.accepted))), ("pixels", jstr(&hex(&data)))];
            match r {
                Err(m) => o.violation(viol("writer-panicked", &format!("writer-panicked: {}", m.chars().take(50).collect::<String>()), detail(&m))),
                Ok((retried, fin, errs)) => {
                    let boundary = st.accepted_at_failure.map_or(false, |n| at_chunk_boundary(&st.accepted[..n]));
                    o.count(&format!("retry.{}.{}", if boundary { "at-chunk-boundary" } else { "inside-a-chunk-or-header" }, if retried && fin { "finish-ok" } else { "not-recovered" }));
                    o.distinct(&format!("retry-{}-{}-{}-{}", size, part.min(9), boundary, f.min(40)));
                    if boundary && retried && fin && st.failures == 1 {
                        let ok = match crate::validator::validate(&st.accepted) {
                            Err(e) => Err(e),
                            Ok(_) => {
                                let mut d = png::Decoder::new(std::io::Cursor::new(&st.accepted[..]));
                                d.set_transformations(png::Transformations::IDENTITY);
                                match d.read_info() {
                                    Err(e) => Err(format!("{:?}", e)),
                                    Ok(mut rd) => { let mut buf = vec![0u8; rd.output_buffer_size()]; match rd.next_frame(&mut buf) { Ok(_) => if buf[..data.len()] == data[..] { Ok(()) } else { Err("decoded pixels differ from the pixels written".to_string()) }, Err(e) => Err(format!("{:?}", e)) } }
                                }
                            }
                        };
                        if let Err(why) = ok {
                            // the sink failed but NO call returned Err: the failure was swallowed inside StreamWriter::finish / Drop (known finding)
                            let class = if errs == 0 { "sink-failure-swallowed-after-StreamWriter-finish" } else { "finish-ok-after-retried-transient-failure-but-stream-incomplete" };
                            o.violation(viol("finish-ok-but-stream-incomplete", class, detail(&why)));
                        }
                    }
                }
            }
        }
    }
}

/// Animated encoders: all frames streamed through ONE stream writer; after any Err the caller simply keeps writing (and
/// flushing / finishing).  Whatever the sink does, no call may panic.
fn keep_going_cases(o: &mut Out, rng: &mut Rng, thorough: bool) {
    use std::io::Write;
    for k in 0..(if thorough { 300 } else { 40 }) {
        let mut cfg = random_cfg(rng, Some(true));
        cfg.sep = k % 4 == 0;
        // every fifth history keeps streaming after the declared frames (sequence validation is off here: the surplus is taken, and nothing may panic)
        let surplus = if k % 5 == 2 { 1 + (k / 5) % 2 } else { 0 };
        let nimg = match cfg.animated { Some((nf, _)) => nf as usize + cfg.sep as usize, None => 1 } + surplus;
        let bits = crate::refimpl::samples(cfg.color) * cfg.depth as usize;
        let rowlen = (cfg.w as usize * bits + 7) / 8;
        let data = rng.bytes(rowlen * cfg.h as usize * nimg);
        let size = *rng.pick(&[1usize, 7, 64, 4096]);
        let part = *rng.pick(&[1usize, rowlen, rowlen * cfg.h as usize, data.len()]);
        let owned = k % 3 == 0;
        let history = |sink: Sink| -> Result<(), String> {
            guarded(|| {
                let mut e = png::Encoder::new(sink.clone(), cfg.w, cfg.h);
                e.set_color(color_of(cfg.color));
                e.set_depth(depth_of(cfg.depth));
                if let Some(p) = &cfg.palette { e.set_palette(p.clone()); }
                set_compression(&mut e, cfg.compression);
                if let Some((nf, np)) = cfg.animated { let _ = e.set_animated(nf, np); if cfg.sep { let _ = e.set_sep_def_img(true); } }
                let mut w = match e.write_header() { Ok(w) => w, Err(_) => return };
                // frame rectangles: the first one set on the Writer, the later ones through the stream writer's own setters between frames
                // (smaller first, then growing back: the stream writer's row buffers must follow)
                let vary = k % 2 == 1;
                let (mut cw, mut ch) = (cfg.w, cfg.h);
                if vary {
                    let (a, b) = ((cfg.w + 1) / 2, (cfg.h + 1) / 2);
                    if w.set_frame_dimension(a, b).is_ok() { cw = a; ch = b; }
                }
                let drive = |sw: &mut png::StreamWriter<Sink>| {
                    let (mut cw, mut ch) = (cw, ch);
                    let mut off = 0usize;
                    for f in 0..nimg {
                        if f > 0 && vary {
                            match f % 3 {
                                1 => { if sw.reset_frame_dimension().is_ok() { cw = cfg.w; ch = cfg.h; } }
                                2 => { let (a, b) = (1.max(cfg.w / 3), cfg.h); if sw.set_frame_dimension(a, b).is_ok() { cw = a; ch = b; } }
                                _ => { if sw.set_frame_dimension(cfg.w, 1).is_ok() { cw = cfg.w; ch = 1; } }
                            }
                        }
                        let n = ((cw as usize * bits + 7) / 8) * ch as usize;
                        let frame = &data[off..(off + n).min(data.len())];
                        off = (off + n).min(data.len());
                        let mut pos = 0;
                        let mut stalls = 0;
                        while pos < frame.len() && stalls < 6 {
                            let end = (pos + part).min(frame.len());
                            match sw.write(&frame[pos..end]) { Ok(0) => stalls += 1, Ok(n) => pos += n, Err(_) => stalls += 1 }
                        }
                    }
                    let _ = sw.flush();
                    let _ = sw.flush();
                };
                if owned {
                    if let Ok(mut sw) = w.into_stream_writer_with_size(size) { drive(&mut sw); let _ = sw.finish(); }
                } else {
                    if let Ok(mut sw) = w.stream_writer_with_size(size) { drive(&mut sw); let _ = sw.finish(); }
                    let _ = w.finish();
                }
            })
        };
        let sink0 = Sink::new(0, None, false);
        o.mark(&format!("keep-going {:?} size={} part={} owned={} surplus={} no-failure", cfg, size, part, owned, surplus));
        if let Err(m) = history(sink0.clone()) {
            o.violation(viol("writer-panicked", &format!("writer-panicked: {}", m.chars().take(50).collect::<String>()), vec![("config", jstr(&format!("{:?}", cfg))), ("why", jstr(&m)), ("sink_failure", jstr("none"))]));
            continue;
        }
        let total = sink0.0.borrow().calls;
        let idx: Vec<usize> = if total <= 80 || thorough { (0..total).collect() } else { (0..80).map(|_| rng.below(total as u64) as usize).collect() };
        for f in idx {
            for once in [true, false] {
                let sink = Sink::new(0, Some(f), once);
                o.mark(&format!("keep-going {:?} size={} part={} owned={} sink-fails-at={} once={}", cfg, size, part, owned, f, once));
                o.direct_checks += 1;
                o.count(if once { "keep-going.fail-once" } else { "keep-going.fail-forever" });
                if let Err(m) = history(sink.clone()) {
                    let st = sink.0.borrow();
                    o.violation(viol("writer-panicked", &format!("writer-panicked: {}", m.chars().take(50).collect::<String>()),
                        vec![("config", jstr(&format!("{:?}", cfg))), ("stream_buffer", size.to_string()), ("write_part", part.to_string()), ("owned_stream_writer", owned.to_string()),
                             ("sink_fails_at_call", f.to_string()), ("once", once.to_string()), ("why", jstr(&m)), ("accepted", jstr(&hex(&st.accepted))), ("pixels", jstr(&hex(&data)))]));
                }
            }
        }
        o.distinct(&format!("keep-going-{:?}-{}-{}-{}", cfg.animated.map(|x| x.0), cfg.sep, size, owned));
    }
}

/// every sequence of up to 3 (4) frame-rectangle setters from a small alphabet on a 4x3 canvas: a setter that returns Ok must leave a rectangle inside the canvas
fn setter_matrix_cases(o: &mut Out, thorough: bool) {
    let alphabet: Vec<WOp> = vec![WOp::FrameDim(1, 1), WOp::FrameDim(1, 3), WOp::FrameDim(4, 1), WOp::FrameDim(2, 2), WOp::FrameDim(4, 3), WOp::FrameDim(3, 3), WOp::FrameDim(0, 1), WOp::FrameDim(5, 1),
        WOp::FramePos(0, 1), WOp::FramePos(1, 0), WOp::FramePos(3, 2), WOp::FramePos(2, 1), WOp::FramePos(0, 3), WOp::FramePos(4, 0), WOp::ResetDim, WOp::ResetPos];
    let n = alphabet.len();
    let len = if thorough { 4 } else { 3 };
    let cfg = WCfg { w: 4, h: 3, color: 0, depth: 8, animated: Some((2, 0)), sep: false, compression: 13, filter: 0, validate: false, palette: None };
    let mut rng = Rng::new(7);
    for code in 0..(n as u64).pow(len as u32) {
        let mut ops: Vec<WOp> = vec![];
        let mut c = code;
        for _ in 0..len { ops.push(alphabet[(c % n as u64) as usize].clone()); c /= n as u64; }
        // before the first image (only the canvas rectangle is legal there) and after it (any rectangle inside the canvas); an image at the end
        // shows the rectangle in force in its fcTL
        for after_first in [false, true] {
            let ops: Vec<WOp> = { let mut v = if after_first { vec![WOp::Image { stream: None, parts: vec![] }] } else { vec![] }; v.extend(ops.iter().cloned()); v.push(WOp::Image { stream: None, parts: vec![] }); v };
            o.mark(&format!("setters {:?}", ops));
            let sink = Sink::new(0, None, false);
            let run = run_writer(&cfg, &ops, sink.clone(), false, &mut rng);
            o.direct_checks += 1;
            // the same history through Model/FrameRect.v: result of every setter, rectangle of every fcTL written
            if run.panicked.is_none() && run.results.len() == ops.len() + 1 {
                let acc = sink.0.borrow().accepted.clone();
                let fctls: Vec<String> = parse_strict(&acc).map(|cs| cs.iter().filter(|c| &c.ty == b"fcTL" && c.data.len() == 26).map(|c| {
                    let g = |o: usize| u32::from_be_bytes([c.data[o], c.data[o + 1], c.data[o + 2], c.data[o + 3]]);
                    format!("2:{}:{}:{}:{}", g(4), g(8), g(12), g(16)) }).collect()).unwrap_or_default();
                let mut k = 0;
                let text: Vec<String> = ops.iter().zip(run.results.iter().skip(1)).map(|(op, res)| {
                    let ok = res.ends_with(" ok");
                    match op {
                        WOp::Image { .. } => { if ok { k += 1; fctls.get(k - 1).cloned().unwrap_or_else(|| "no-fcTL".into()) } else { "1".into() } }
                        _ => if ok { "0".into() } else { "1".into() },
                    }
                }).collect();
                let code: Vec<String> = ops.iter().map(|op| match op { WOp::FrameDim(a, b) => format!("D{}x{}", a, b), WOp::FramePos(a, b) => format!("P{}x{}", a, b), WOp::ResetDim => "RD".into(), WOp::ResetPos => "RP".into(), _ => "I".into() }).collect();
                o.case(&format!("frect {} {} {}", cfg.w, cfg.h, code.join(",")), &text.join(" "), &format!("frect-{}", code.join(",")), true);
            }
            if let Some(m) = &run.panicked {
                o.violation(viol("writer-panicked", &format!("writer-panicked: {}", m.chars().take(50).collect::<String>()), vec![("config", jstr(&format!("{:?}", cfg))), ("ops", jstr(&format!("{:?}", ops))), ("why", jstr(m))]));
            } else if let Some(why) = run.illegal_accepted.first() {
                o.violation(viol("invalid-frame-parameter-accepted", "invalid-frame-parameter-accepted", vec![("config", jstr(&format!("{:?}", cfg))), ("ops", jstr(&format!("{:?}", ops))), ("why", jstr(why)), ("results", jstr(&run.results.join(" | ")))]));
            }
        }
    }
    o.count("setter-matrix");
    o.distinct("setter-matrix");
}

/// whole-image histories over a sink that starts refusing at a chunk boundary vs Model/WriterFail.v f_history: what every call returns
/// and which chunks the sink holds
/// Encoder::with_info with a frame control whose rectangle is not the canvas (larger, empty, a sub-rectangle, offset): an invalid parameter - it
/// must be refused there, and whatever is accepted must not make a later writer call panic
fn with_info_frame_cases(o: &mut Out, rng: &mut Rng, thorough: bool) {
    use std::io::Write;
    for k in 0..(if thorough { 600 } else { 80 }) {
        let (w, h) = (rng.range(1, 6) as u32, rng.range(1, 6) as u32);
        let pickdim = |rng: &mut Rng, full: u32| -> u32 { match rng.below(6) { 0 => 0, 1 => full + rng.range(1, 8) as u32, 2 => full + 1000, 3 => rng.range(1, full as u64) as u32, _ => full } };
        let (fw, fh) = (pickdim(rng, w), pickdim(rng, h));
        let (fx, fy) = (if rng.chance(1, 3) { rng.range(0, 3) as u32 } else { 0 }, if rng.chance(1, 3) { rng.range(0, 3) as u32 } else { 0 });
        let canvas = (fw, fh, fx, fy) == (w, h, 0, 0);
        let streamed = k % 2 == 0;
        let sep = k % 5 == 0;
        o.mark(&format!("with_info frame {}x{}+{}+{} on {}x{} streamed={} sep={}", fw, fh, fx, fy, w, h, streamed, sep));
        let r = guarded(|| -> Result<String, String> {
            let mut info = png::Info::with_size(w, h);
            info.color_type = png::ColorType::Grayscale;
            info.animation_control = Some(png::AnimationControl { num_frames: 2, num_plays: 0 });
            let mut fc = png::FrameControl::default();
            fc.width = fw; fc.height = fh; fc.x_offset = fx; fc.y_offset = fy;
            info.frame_control = Some(fc);
            let sink = Sink::new(0, None, false);
            let mut e = match png::Encoder::with_info(sink.clone(), info) { Ok(e) => e, Err(_) => return Ok("refused".into()) };
            if sep { let _ = e.set_sep_def_img(true); }
            let mut wr = e.write_header().map_err(|er| format!("header: {:?}", er))?;
            let n = (fw as usize).saturating_mul(fh as usize).min(1 << 16);
            let data = vec![7u8; n];
            if streamed {
                let mut sw = wr.stream_writer().map_err(|er| format!("stream writer: {:?}", er))?;
                let _ = sw.write(&data);
                let _ = sw.write(&[1u8; 100]);
                let _ = sw.finish();
            } else {
                let _ = wr.write_image_data(&data);
                let _ = wr.write_image_data(&[]);
            }
            let _ = wr.finish();
            Ok("accepted".into())
        });
        o.direct_checks += 1;
        o.count(if canvas { "with-info-frame.canvas" } else { "with-info-frame.other" });
        let detail = |why: &str| vec![("why", jstr(why)), ("canvas", jstr(&format!("{}x{}", w, h))), ("frame_control", jstr(&format!("{}x{}+{}+{}", fw, fh, fx, fy))), ("streamed", streamed.to_string())];
        match r {
            Err(m) => o.violation(viol("writer-panicked", &format!("writer-panicked: {}", m.chars().take(50).collect::<String>()), detail(&m))),
            Ok(Ok(res)) => {
                if res == "accepted" && !canvas {
                    o.violation(viol("invalid-frame-parameter-accepted", "invalid-frame-parameter-accepted", detail("Encoder::with_info accepted a frame control whose rectangle is not the canvas (the first image must cover the canvas)")));
                }
                if res == "refused" && canvas {
                    o.violation(viol("legal-parameter-refused", "legal-parameter-refused", detail("Encoder::with_info refused a frame control covering the canvas")));
                }
            }
            Ok(Err(_)) => {}
        }
    }
}

fn failing_sink_model_cases(o: &mut Out, rng: &mut Rng, thorough: bool) {
    let kinds_after_header = |bytes: &[u8], header_len: usize| -> Result<Vec<String>, String> {
        // whole chunks only (the sink refuses at chunk boundaries)
        let mut v = vec![];
        let mut i = header_len;
        while i + 12 <= bytes.len() {
            let len = u32::from_be_bytes([bytes[i], bytes[i + 1], bytes[i + 2], bytes[i + 3]]) as usize;
            if i + 12 + len > bytes.len() { return Err(format!("partial chunk at {}", i)); }
            let ty = &bytes[i + 4..i + 8];
            v.push(match ty {
                b"IDAT" => "IDAT".to_string(),
                b"IEND" => "IEND".to_string(),
                b"fcTL" => format!("fcTL:{}", u32::from_be_bytes([bytes[i + 8], bytes[i + 9], bytes[i + 10], bytes[i + 11]])),
                b"fdAT" => format!("fdAT:{}", u32::from_be_bytes([bytes[i + 8], bytes[i + 9], bytes[i + 10], bytes[i + 11]])),
                other => String::from_utf8_lossy(other).to_string(),
            });
            i += 12 + len;
        }
        if i != bytes.len() { return Err(format!("{} trailing bytes", bytes.len() - i)); }
        Ok(v)
    };
    // one history: returns (results, accepted bytes, header length, call log)
    let run_history = |anim: Option<u32>, sep: bool, validate: bool, nimg: usize, finish: bool, fail_from: Option<usize>| -> Result<(Vec<String>, Vec<u8>, usize, Vec<usize>), String> {
        let sink = Sink::new(0, fail_from, false);
        let r = guarded(|| -> Result<(Vec<String>, usize), String> {
            let mut e = png::Encoder::new(sink.clone(), 2, 2);
            e.set_color(png::ColorType::Grayscale);
            e.set_depth(png::BitDepth::Eight);
            if let Some(nf) = anim {
                e.set_animated(nf, 0).map_err(|er| format!("{:?}", er))?;
                if sep { e.set_sep_def_img(true).map_err(|er| format!("{:?}", er))?; }
            }
            e.validate_sequence(validate);
            let mut w = e.write_header().map_err(|er| format!("header: {:?}", er))?;
            let header_len = sink.0.borrow().accepted.len();
            let mut res = vec![];
            let class = |er: &png::EncodingError| -> String {
                let d = format!("{:?}", er);
                if d.contains("EndReached") { "end".into() } else if d.contains("MissingFrames") { "missing".into() } else if d.contains("IoError") || d.contains("sink failure") { "sink".into() } else { format!("other:{}", d.chars().take(60).collect::<String>()) }
            };
            for k in 0..nimg {
                res.push(match w.write_image_data(&[k as u8, 1, 2, 3]) { Ok(()) => "ok".to_string(), Err(er) => class(&er) });
            }
            if finish {
                res.push(match w.finish() { Ok(()) => "ok".to_string(), Err(er) => class(&er) });
            } else {
                drop(w);
            }
            Ok((res, header_len))
        });
        match r {
            Ok(Ok((res, hl))) => { let st = sink.0.borrow(); Ok((res, st.accepted.clone(), hl, st.call_log.clone())) }
            Ok(Err(e)) => Err(e),
            Err(m) => Err(format!("PANIC {}", m)),
        }
    };
    let configs: Vec<(Option<u32>, bool)> = vec![(None, false), (Some(1), false), (Some(2), false), (Some(3), false), (Some(1), true), (Some(2), true)];
    for &(anim, sep) in &configs {
        let declared = anim.map_or(1, |nf| nf as usize + sep as usize);
        for validate in [true, false] {
            for nimg in 0..=(declared + 2) {
                for finish in [true, false] {
                    // healthy dry run: where the chunks start
                    let dry = match run_history(anim, sep, validate, nimg, finish, None) {
                        Ok(x) => x,
                        Err(e) => { o.violation(viol("encoder-panicked", "encoder-panicked", vec![("why", jstr(&e))])); continue; }
                    };
                    let (dry_res, dry_bytes, header_len, dry_calls) = dry;
                    let kinds = match kinds_after_header(&dry_bytes, header_len) { Ok(k) => k, Err(e) => { o.violation(viol("encoder-output-not-conformant", "encoder-output-not-conformant", vec![("why", jstr(&e))])); continue; } };
                    let anim_s = anim.map_or("-".to_string(), |n| n.to_string());
                    let ns = if nimg == 0 { "-".to_string() } else { vec!["1"; nimg].join(",") };
                    o.direct_checks += 1;
                    o.case(&format!("wfail {} {} {} - {} {}", validate as u8, anim_s, sep as u8, ns, finish as u8), &format!("{} | {}", kinds.join(" "), dry_res.join(",")),
                        &format!("wf-{}-{}-{}-{}-{}", anim_s, sep, validate, nimg, finish), nimg > 0);
                    // chunk boundaries (offsets) after the header, incl. the end; the sink starts refusing at the first call made at that offset
                    let mut offs = vec![header_len];
                    { let mut i = header_len; while i + 12 <= dry_bytes.len() { let len = u32::from_be_bytes([dry_bytes[i], dry_bytes[i + 1], dry_bytes[i + 2], dry_bytes[i + 3]]) as usize; i += 12 + len; offs.push(i); } }
                    let picks: Vec<usize> = if thorough || offs.len() <= 4 { (0..offs.len()).collect() } else { let mut v = vec![0, offs.len() - 1]; v.push(rng.below(offs.len() as u64) as usize); v.push(rng.below(offs.len() as u64) as usize); v.sort(); v.dedup(); v };
                    for j in picks {
                        let call = match dry_calls.iter().position(|&l| l == offs[j]) { Some(c) => c, None => continue };   // no call at this offset (the end, when nothing follows)
                        let (res, bytes, hl, _) = match run_history(anim, sep, validate, nimg, finish, Some(call)) {
                            Ok(x) => x,
                            Err(e) => { o.violation(viol("encoder-panicked", "encoder-panicked", vec![("why", jstr(&e)), ("fail_from_call", call.to_string())])); continue; }
                        };
                        let kinds = match kinds_after_header(&bytes, hl) { Ok(k) => k.join(" "), Err(e) => format!("UNPARSABLE {}", e) };
                        o.direct_checks += 1;
                        o.case(&format!("wfail {} {} {} {} {} {}", validate as u8, anim_s, sep as u8, j, ns, finish as u8), &format!("{} | {}", kinds, res.join(",")),
                            &format!("wf-{}-{}-{}-{}-{}-b{}", anim_s, sep, validate, nimg, finish, j), true);
                        o.count("failing-sink-model-cases");
                    }
                }
            }
        }
    }
}

pub fn run(a: &Args) {
    let mut o = Out::new(&a.out);
    let mut rng = Rng::new(a.seed);
    let thorough = a.tier == "thorough";
    setter_matrix_cases(&mut o, thorough);
    retry_cases(&mut o, &mut rng, thorough);
    keep_going_cases(&mut o, &mut rng, thorough);
    failing_sink_model_cases(&mut o, &mut rng, thorough);
    with_info_frame_cases(&mut o, &mut rng, thorough);
    for k in 0..(if thorough { 4000 } else { 260 }) {
        let mut cfg = random_cfg(&mut rng, None);
        cfg.validate = k % 2 == 0;
        if k % 9 == 0 {
            cfg.w = *rng.pick(&[0u32, 1, 0xffff_ffff]);
            cfg.h = *rng.pick(&[0u32, 1, 0xffff_ffff]);
        }
        let (ops, declared) = random_history(&cfg, &mut rng);
        let finish = k % 5 != 4;
        let into = matches!(ops.last(), Some(WOp::IntoStream { .. }));
        // reference run without sink failures: how many sink calls are there, and what happens
        let seed_state = rng.0;
        let sink0 = Sink::new(if k % 3 == 0 { 3 } else { 0 }, None, false);
        o.mark(&format!("writer {:?} {:?} finish={} no-failure", cfg, ops, finish));
        let run0 = run_writer(&cfg, &ops, sink0.clone(), finish, &mut Rng(seed_state));
        let total_calls = sink0.0.borrow().calls;
        let mut plans: Vec<Option<(usize, bool)>> = vec![None];
        let idx: Vec<usize> = if total_calls <= 48 || thorough { (0..total_calls).collect() } else { (0..48).map(|_| rng.below(total_calls as u64) as usize).collect() };
        for f in idx {
            plans.push(Some((f, true)));
            plans.push(Some((f, false)));
        }
        for plan in plans {
            let sink = match plan { None => sink0.clone(), Some((f, once)) => Sink::new(if k % 3 == 0 { 3 } else { 0 }, Some(f), once) };
            let run = match plan {
                None => WRun { results: run0.results.clone(), finish: run0.finish.clone(), panicked: run0.panicked.clone(), images: vec![], errors_before_finish: run0.errors_before_finish, illegal_accepted: run0.illegal_accepted.clone(), setter_refusals: run0.setter_refusals },
                Some(_) => {
                    o.mark(&format!("writer {:?} {:?} finish={} sink-failure={:?}", cfg, ops, finish, plan));
                    run_writer(&cfg, &ops, sink.clone(), finish, &mut Rng(seed_state))
                }
            };
            o.direct_checks += 1;
            let st = sink.0.borrow();
            let bytes = &st.accepted;
            o.count(&format!("plan.{}", match plan { None => "no-failure", Some((_, true)) => "fail-once", Some((_, false)) => "fail-forever" }));
            o.distinct(&format!("{:?}-{}-{}-{:?}", cfg.animated.map(|x| x.0), cfg.validate, ops.len(), plan.map(|p| (p.0.min(30), p.1))));
            let detail = |why: &str| vec![("config", jstr(&format!("{:?}", cfg))), ("ops", jstr(&format!("{:?}", ops))), ("finish_called", finish.to_string()), ("sink_failure", jstr(&format!("{:?}", plan))),
                ("why", jstr(why)), ("results", jstr(&run.results.join(" | "))), ("finish_result", jstr(&run.finish)), ("accepted", jstr(&hex(bytes)))];
            if let Some(m) = &run.panicked {
                o.violation(viol("writer-panicked", &format!("writer-panicked: {}", m.chars().take(50).collect::<String>()), detail(m)));
                continue;
            }
            // invalid frame parameters are reported as errors
            if let Some(why) = run.illegal_accepted.first() {
                if plan.is_none() {
                    o.violation(viol("invalid-frame-parameter-accepted", "invalid-frame-parameter-accepted", detail(why)));
                    continue;
                }
            }
            // with sequence validation on, a whole-image write that returned Err has not written an image: if only whole-image writes were used,
            // finish() may return Ok only when the number of SUCCESSFUL writes is the declared number (whatever the sink did)
            // (still images only: on an animated encoder a sink failure inside an image leaves a torn stream whose frame count nobody can repair)
            if cfg.validate && cfg.animated.is_none() && finish && run.finish == "ok" && !into && !ops.iter().any(|x| matches!(x, WOp::Image { stream: Some(_), .. })) {
                let ok_images = if plan.is_none() { run0.images.len() } else { run.images.len() };
                if ok_images != declared {
                    o.violation(viol("wrong-image-count-accepted-with-validation", "failed-whole-image-write-counted-as-an-image",
                        detail(&format!("{} whole-image writes returned Ok, {} images declared, finish() returned Ok", ok_images, declared))));
                    continue;
                }
            }
            // a dropped / finished writer never emits a second IEND
            if count_iend(bytes) > 1 {
                o.violation(viol("second-IEND-emitted", "second-IEND-emitted", detail(&format!("{} IEND chunks in the accepted bytes", count_iend(bytes)))));
                continue;
            }
            // Ok from the final finish (with no earlier error) means: the sink holds a complete stream ending in exactly one IEND
            // (parameter errors returned by earlier calls do not excuse anything: only histories in which the sink itself failed
            //  and the failed call was not retried are left out - a torn chunk cannot be repaired by any later call)
            if (finish || into) && run.finish == "ok" && (run.errors_before_finish == 0 || st.failures == 0) {
                let complete = match parse_strict(bytes) {
                    Ok(ch) => !ch.is_empty() && &ch[ch.len() - 1].ty == b"IEND" && ch.iter().filter(|c| &c.ty == b"IEND").count() == 1,
                    Err(_) => false,
                };
                if !complete {
                    let streamed = into || ops.iter().any(|x| matches!(x, WOp::Image { stream: Some(_), .. }));
                    // known class: the sink DID fail, after a StreamWriter::finish was entered, and the error was swallowed in Drop
                    let class = if streamed && st.failures > 0 { "sink-failure-swallowed-after-StreamWriter-finish" } else { "finish-ok-but-stream-incomplete" };
                    o.violation(viol("finish-ok-but-stream-incomplete", class, detail("finish() returned Ok, the accepted bytes are not a complete chunk stream ending in one IEND")));
                    continue;
                }
                // with validation on, the number of images must match the declaration
                if cfg.validate && plan.is_none() && run.errors_before_finish == 0 {
                    // images whose call returned Ok (a refused image is not a written one)
                    let written = run0.images.len();
                    if written != declared {
                        let streamed = into || ops.iter().any(|x| matches!(x, WOp::Image { stream: Some(_), .. }));
                        let class = if into && written < declared { "sequence-validation-skipped-by-into_stream_writer" }
                            else if streamed && cfg.animated.is_some() { "stream-writer-on-animated-encoder-miscounts-frames" }
                            else { "wrong-image-count-accepted-with-validation" };
                        o.violation(viol("wrong-image-count-accepted-with-validation", class, detail(&format!("{} images written, {} declared, every call and finish returned Ok", written, declared))));
                    }
                }
            }
        }
    }
    o.mark("done");
    o.finish();
}

pub fn replay(_case: &str) -> String {
    "unknown-case".into()
}
