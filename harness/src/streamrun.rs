//! Running the crate's StreamingDecoder / Reader and printing canonical observations
//! (the same text is produced by the OCaml driver from the Coq model).
use crate::util::*;
use png::{Decoded, DecodingError, StreamingDecoder};
use std::fmt::Write as _;

pub fn hash(data: &[u8]) -> u64 {
    let mut h: u64 = 7;
    for &b in data {
        h = (h * 31 + b as u64) % 1_000_000_007;
    }
    h
}

pub fn ty_u32(t: png::chunk::ChunkType) -> u32 {
    u32::from_be_bytes(t.0)
}

/// "Format:CrcMismatch", "Io:UnexpectedEof", "Param:PolledAfterEndOfImage", "Limits"
pub fn err_class(e: &DecodingError) -> String {
    match e {
        DecodingError::IoError(io) => format!("Io:{:?}", io.kind()),
        DecodingError::LimitsExceeded => "Limits".to_string(),
        DecodingError::Format(_) | DecodingError::Parameter(_) => {
            let d = format!("{:?}", e);
            // Format(FormatError { inner: CrcMismatch { .. } })  /  Parameter(ParameterError { inner: PolledAfterEndOfImage })
            let head = if d.starts_with("Format") { "Format" } else { "Param" };
            let inner = d.split("inner: ").nth(1).unwrap_or("?");
            let name: String = inner.chars().take_while(|c| c.is_alphanumeric() || *c == '_').collect();
            format!("{}:{}", head, name)
        }
    }
}

#[derive(Clone, Copy, Debug)]
pub struct Opts {
    pub ignore_adler: bool,
    pub ignore_crc: bool,
    pub ignore_text: bool,
    pub ignore_iccp: bool,
    pub skip_anc_crc: bool,
}

impl Opts {
    pub fn default() -> Opts {
        Opts { ignore_adler: true, ignore_crc: false, ignore_text: false, ignore_iccp: false, skip_anc_crc: true }
    }
    pub fn bits(&self) -> u32 {
        (self.ignore_adler as u32) | (self.ignore_crc as u32) << 1 | (self.ignore_text as u32) << 2 | (self.ignore_iccp as u32) << 3 | (self.skip_anc_crc as u32) << 4
    }
    pub fn from_bits(b: u32) -> Opts {
        Opts { ignore_adler: b & 1 != 0, ignore_crc: b & 2 != 0, ignore_text: b & 4 != 0, ignore_iccp: b & 8 != 0, skip_anc_crc: b & 16 != 0 }
    }
    pub fn to_png(&self) -> png::DecodeOptions {
        let mut o = png::DecodeOptions::default();
        o.set_ignore_adler32(self.ignore_adler);
        o.set_ignore_crc(self.ignore_crc);
        o.set_ignore_text_chunk(self.ignore_text);
        o.set_ignore_iccp_chunk(self.ignore_iccp);
        o.set_skip_ancillary_crc_failures(self.skip_anc_crc);
        o
    }
}

pub fn latin1_bytes(s: &str) -> Vec<u8> {
    s.chars().map(|c| c as u32 as u8).collect()
}

fn opt_hex(o: Option<&[u8]>) -> String {
    match o {
        Some(b) => hex(b),
        None => "none".into(),
    }
}

pub fn fctl_str(f: &png::FrameControl) -> String {
    format!(
        "{}:{}:{}:{}:{}:{}:{}:{}:{}",
        f.sequence_number, f.width, f.height, f.x_offset, f.y_offset, f.delay_num, f.delay_den, f.dispose_op as u8, f.blend_op as u8
    )
}

fn chrm_str(c: &png::SourceChromaticities) -> String {
    format!(
        "{}:{}:{}:{}:{}:{}:{}:{}",
        c.white.0.into_scaled(), c.white.1.into_scaled(), c.red.0.into_scaled(), c.red.1.into_scaled(),
        c.green.0.into_scaled(), c.green.1.into_scaled(), c.blue.0.into_scaled(), c.blue.1.into_scaled()
    )
}

/// canonical dump of every metadata field of Info
pub fn info_dump(i: &png::Info) -> String {
    let mut s = String::new();
    write!(s, "{},{},{},{},{}", i.width, i.height, i.bit_depth as u8, i.color_type as u8, i.interlaced as u8).unwrap();
    write!(s, "|pal={}", opt_hex(i.palette.as_deref())).unwrap();
    write!(s, "|trns={}", opt_hex(i.trns.as_deref())).unwrap();
    write!(s, "|sbit={}", opt_hex(i.sbit.as_deref())).unwrap();
    match i.pixel_dims {
        Some(p) => write!(s, "|phys={}:{}:{}", p.xppu, p.yppu, p.unit as u8).unwrap(),
        None => s.push_str("|phys=none"),
    }
    match i.gama_chunk {
        Some(g) => write!(s, "|gama={}", g.into_scaled()).unwrap(),
        None => s.push_str("|gama=none"),
    }
    match &i.chrm_chunk {
        Some(c) => write!(s, "|chrm={}", chrm_str(c)).unwrap(),
        None => s.push_str("|chrm=none"),
    }
    match i.srgb {
        Some(r) => write!(s, "|srgb={}", r as u8).unwrap(),
        None => s.push_str("|srgb=none"),
    }
    write!(s, "|iccp={}", opt_hex(i.icc_profile.as_deref())).unwrap();
    match &i.coding_independent_code_points {
        Some(c) => write!(s, "|cicp={}:{}:{}:{}", c.color_primaries, c.transfer_function, c.matrix_coefficients, c.is_video_full_range_image as u8).unwrap(),
        None => s.push_str("|cicp=none"),
    }
    match &i.mastering_display_color_volume {
        Some(m) => write!(s, "|mdcv={}:{}:{}", chrm_str(&m.chromaticities), m.max_luminance, m.min_luminance).unwrap(),
        None => s.push_str("|mdcv=none"),
    }
    match &i.content_light_level {
        Some(c) => write!(s, "|clli={}:{}", c.max_content_light_level, c.max_frame_average_light_level).unwrap(),
        None => s.push_str("|clli=none"),
    }
    write!(s, "|exif={}", opt_hex(i.exif_metadata.as_deref())).unwrap();
    write!(s, "|bkgd={}", opt_hex(i.bkgd.as_deref())).unwrap();
    match &i.frame_control {
        Some(f) => write!(s, "|fctl={}", fctl_str(f)).unwrap(),
        None => s.push_str("|fctl=none"),
    }
    match &i.animation_control {
        Some(a) => write!(s, "|actl={}:{}", a.num_frames, a.num_plays).unwrap(),
        None => s.push_str("|actl=none"),
    }
    s.push_str("|text=");
    for t in &i.uncompressed_latin1_text {
        write!(s, "[0:{}:0:-:-:ok:{}]", hex(&latin1_bytes(&t.keyword)), hex(&latin1_bytes(&t.text))).unwrap();
    }
    for t in &i.compressed_latin1_text {
        let txt = match t.get_text() {
            Ok(x) => format!("ok:{}", hex(&latin1_bytes(&x))),
            Err(_) => "err".to_string(),
        };
        write!(s, "[1:{}:1:-:-:{}]", hex(&latin1_bytes(&t.keyword)), txt).unwrap();
    }
    for t in &i.utf8_text {
        let txt = match t.get_text() {
            Ok(x) => format!("ok:{}", hex(x.as_bytes())),
            Err(_) => "err".to_string(),
        };
        write!(
            s,
            "[2:{}:{}:{}:{}:{}]",
            hex(&latin1_bytes(&t.keyword)), t.compressed as u8, hex(t.language_tag.as_bytes()), hex(t.translated_keyword.as_bytes()), txt
        )
        .unwrap();
    }
    s
}

pub fn event_str(e: &Decoded) -> Option<String> {
    Some(match e {
        Decoded::Nothing => return None,
        Decoded::Header(w, h, d, c, i) => format!("H:{}:{}:{}:{}:{}", w, h, *d as u8, *c as u8, *i as u8),
        Decoded::ChunkBegin(l, t) => format!("CB:{}:{}", l, ty_u32(*t)),
        Decoded::ChunkComplete(c, t) => format!("CC:{}:{}", c, ty_u32(*t)),
        Decoded::PixelDimensions(p) => format!("PD:{}:{}:{}", p.xppu, p.yppu, p.unit as u8),
        Decoded::AnimationControl(a) => format!("AC:{}:{}", a.num_frames, a.num_plays),
        Decoded::FrameControl(f) => format!("FC:{}", fctl_str(f)),
        Decoded::ImageData => "D".to_string(),
        Decoded::ImageDataFlushed => "F".to_string(),
        Decoded::PartialChunk(t) => format!("PC:{}", ty_u32(*t)),
        Decoded::ImageEnd => "IE".to_string(),
    })
}

/// split by repeating sizes (0 / exhausted = rest)
pub fn split_sched(bytes: &[u8], sizes: &[usize]) -> Vec<Vec<u8>> {
    let mut v = vec![];
    let mut i = 0;
    let mut k = 0;
    while i < bytes.len() {
        let n = if sizes.is_empty() { 0 } else { sizes[k % sizes.len()] };
        k += 1;
        if n == 0 {
            v.push(bytes[i..].to_vec());
            break;
        }
        let e = (i + n).min(bytes.len());
        v.push(bytes[i..e].to_vec());
        i = e;
    }
    v
}

pub struct L0Result {
    pub text: String,
    pub calls: u64,
    pub max_zero_progress: u64,
    pub limit_left: usize,
}

/// Feed `pieces` to a StreamingDecoder the way a low-level caller does and print the observation.
pub fn run_l0(pieces: &[Vec<u8>], opts: Opts, limit: Option<usize>) -> L0Result {
    let mut dec = StreamingDecoder::new_with_options(opts.to_png());
    if let Some(l) = limit {
        dec.verif_set_limit(l);
    }
    let mut evs: Vec<String> = vec![];
    let mut pending: Vec<u8> = vec![];
    let mut in_data = false;
    let mut end = "EOF".to_string();
    let mut calls = 0u64;
    let mut zero_run = 0u64;
    let mut max_zero = 0u64;
    'outer: for p in pieces {
        let mut buf: &[u8] = &p[..];
        while !buf.is_empty() {
            calls += 1;
            let before = pending.len();
            let r = guarded(|| dec.update(buf, &mut pending));
            match r {
                Err(m) => {
                    end = format!("PANIC {}", m);
                    break 'outer;
                }
                Ok(Err(e)) => {
                    end = format!("ERR:{}", err_class(&e));
                    break 'outer;
                }
                Ok(Ok((n, ev))) => {
                    if n == 0 && pending.len() == before && matches!(ev, Decoded::Nothing | Decoded::ImageData | Decoded::PartialChunk(_)) {
                        zero_run += 1;
                        max_zero = max_zero.max(zero_run);
                        if zero_run > 1000 {
                            end = "SPIN".to_string();
                            break 'outer;
                        }
                    } else {
                        zero_run = 0;
                    }
                    buf = &buf[n..];
                    match &ev {
                        Decoded::Nothing => {}
                        Decoded::ImageData => {
                            if !in_data {
                                evs.push("D".into());
                            }
                            in_data = true;
                        }
                        Decoded::ImageDataFlushed => {
                            evs.push(format!("F:{}:{}", pending.len(), hash(&pending)));
                            pending.clear();
                            in_data = false;
                        }
                        Decoded::ImageEnd => {
                            evs.push("IE".into());
                            end = format!("IEND:{}", buf.len());
                            break 'outer;
                        }
                        other => {
                            evs.push(event_str(other).unwrap());
                            in_data = false;
                        }
                    }
                }
            }
        }
    }
    let info = match dec.info() {
        Some(i) => info_dump(i),
        None => "none".to_string(),
    };
    L0Result {
        text: format!("{} END={} INFO={}", if evs.is_empty() { "-".to_string() } else { evs.join(";") }, end, info),
        calls,
        max_zero_progress: max_zero,
        limit_left: dec.verif_limit_remaining(),
    }
}
