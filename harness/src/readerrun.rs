//! Running the crate's Decoder/Reader over scheduled / growing inputs and printing canonical results.
use crate::streamrun::*;
use crate::util::*;
use std::cell::Cell;
use std::io::{BufRead, Read, Seek, SeekFrom};
use std::rc::Rc;

/// A BufRead that hands out the input in scheduled pieces and only up to a (growable) visible length.
pub struct PieceReader {
    data: Rc<Vec<u8>>,
    pos: usize,
    cur_end: usize,
    sizes: Vec<usize>,
    k: usize,
    pub visible: Rc<Cell<usize>>,
    pub fills: Rc<Cell<u64>>,
    pub zero_consumes: Rc<Cell<u64>>,
    pub max_zero_run: Rc<Cell<u64>>,
    zero_run: u64,
    /// what an exhausted window answers: 0 = an empty slice (end of input), 1 = Err(WouldBlock), 2 = Err(Interrupted)
    pub stall: Rc<Cell<u8>>,
    /// consecutive polls answered with the stall error (a decoder that keeps polling a stalled reader spins)
    pub stall_polls: Rc<Cell<u64>>,
    pub max_stall_polls: Rc<Cell<u64>>,
}

impl PieceReader {
    pub fn new(data: Vec<u8>, sizes: &[usize]) -> PieceReader {
        let n = data.len();
        PieceReader {
            data: Rc::new(data), pos: 0, cur_end: 0, sizes: sizes.to_vec(), k: 0, visible: Rc::new(Cell::new(n)),
            fills: Rc::new(Cell::new(0)), zero_consumes: Rc::new(Cell::new(0)), max_zero_run: Rc::new(Cell::new(0)), zero_run: 0,
            stall: Rc::new(Cell::new(0)), stall_polls: Rc::new(Cell::new(0)), max_stall_polls: Rc::new(Cell::new(0)),
        }
    }
}

impl Read for PieceReader {
    fn read(&mut self, buf: &mut [u8]) -> std::io::Result<usize> {
        let n = {
            let b = self.fill_buf()?;
            let n = b.len().min(buf.len());
            buf[..n].copy_from_slice(&b[..n]);
            n
        };
        self.consume(n);
        Ok(n)
    }
}

impl BufRead for PieceReader {
    fn fill_buf(&mut self) -> std::io::Result<&[u8]> {
        self.fills.set(self.fills.get() + 1);
        if self.zero_run > 200_000 {
            // the caller keeps asking without consuming: break the spin with an I/O error so that it is recorded instead of hanging the run
            return Err(std::io::Error::new(std::io::ErrorKind::Other, "SPIN: 200000 consecutive zero-byte consumes"));
        }
        let vis = self.visible.get().min(self.data.len());
        if self.pos >= self.cur_end.min(vis) {
            // next piece
            let n = if self.sizes.is_empty() { 0 } else { self.sizes[self.k % self.sizes.len()] };
            if self.pos < vis {
                self.k += 1;
            }
            self.cur_end = if n == 0 { self.data.len() } else { (self.pos + n).min(self.data.len()) };
        }
        let end = self.cur_end.min(vis);
        if end <= self.pos {
            if self.stall.get() != 0 && self.pos < self.data.len() {
                let n = self.stall_polls.get() + 1;
                self.stall_polls.set(n);
                if n > self.max_stall_polls.get() { self.max_stall_polls.set(n); }
                if n > 10_000 {
                    return Err(std::io::Error::new(std::io::ErrorKind::Other, "SPIN: a stalled reader was polled 10000 times in a row"));
                }
                let kind = if self.stall.get() == 1 { std::io::ErrorKind::WouldBlock } else { std::io::ErrorKind::Interrupted };
                return Err(std::io::Error::new(kind, "stalled"));
            }
            return Ok(&[]);
        }
        self.stall_polls.set(0);
        Ok(&self.data[self.pos..end])
    }
    fn consume(&mut self, amt: usize) {
        if amt == 0 {
            self.zero_consumes.set(self.zero_consumes.get() + 1);
            self.zero_run += 1;
            if self.zero_run > self.max_zero_run.get() {
                self.max_zero_run.set(self.zero_run);
            }
        } else {
            self.zero_run = 0;
        }
        self.pos += amt;
    }
}

impl Seek for PieceReader {
    fn seek(&mut self, _: SeekFrom) -> std::io::Result<u64> {
        Err(std::io::Error::new(std::io::ErrorKind::Unsupported, "no seek"))
    }
}

pub fn transforms_of(bits: u32) -> png::Transformations {
    let mut t = png::Transformations::IDENTITY;
    if bits & 1 != 0 {
        t |= png::Transformations::STRIP_16;
    }
    if bits & 2 != 0 {
        t |= png::Transformations::EXPAND;
    }
    if bits & 4 != 0 {
        t |= png::Transformations::ALPHA;
    }
    t
}

pub fn res_err(e: &png::DecodingError) -> String {
    format!("err:{}", err_class(e))
}

pub type Rd = png::Reader<PieceReader>;

pub fn open_decoder(r: PieceReader, opts: Opts, tbits: u32, limit: Option<usize>) -> png::Decoder<PieceReader> {
    let mut d = png::Decoder::new_with_options(r, opts.to_png());
    d.set_transformations(transforms_of(tbits));
    if let Some(l) = limit {
        d.set_limits(png::Limits { bytes: l });
    }
    d
}

pub fn open_reader(bytes: &[u8], sched: &[usize], opts: Opts, tbits: u32, limit: Option<usize>) -> Result<Result<Rd, String>, String> {
    let r = PieceReader::new(bytes.to_vec(), sched);
    guarded(move || open_decoder(r, opts, tbits, limit).read_info().map_err(|e| res_err(&e)))
}

pub const MAX_BUF: usize = 1 << 26;

pub fn header_str(rd: &Rd) -> String {
    let (c, d) = rd.output_color_type();
    let i = rd.info();
    format!("{}x{} out={}:{} line={} buf={}", i.width, i.height, c as u8, d as u8, rd.output_line_size(i.width), rd.output_buffer_size())
}

/// next_frame into a buffer of the documented size pre-filled with `fill`; returns "ok w h c d line hash" etc.
pub fn do_next_frame(rd: &mut Rd, fill: u8) -> (String, Option<Vec<u8>>) {
    let size = match guarded(|| rd.output_buffer_size()) {
        Ok(s) => s,
        Err(m) => return (format!("PANIC output_buffer_size: {}", m), None),
    };
    if size > MAX_BUF {
        return ("skip:buffer-too-big".into(), None);
    }
    let mut buf = vec![fill; size];
    match guarded(|| rd.next_frame(&mut buf)) {
        Err(m) => (format!("PANIC {}", m), None),
        Ok(Err(e)) => (res_err(&e), None),
        Ok(Ok(oi)) => {
            let n = oi.buffer_size().min(buf.len());
            let px = buf[..n].to_vec();
            (format!("ok {}x{} {}:{} line={} n={} h={}", oi.width, oi.height, oi.color_type as u8, oi.bit_depth as u8, oi.line_size, oi.buffer_size(), hash(&px)), Some(px))
        }
    }
}

/// Decode everything through next_frame, then finish; one canonical line.
pub fn reader_summary(bytes: &[u8], sched: &[usize], opts: Opts, tbits: u32) -> String {
    reader_summary_limited(bytes, sched, opts, tbits, None)
}

/// the same under `Limits { bytes: limit }`
pub fn reader_summary_limited(bytes: &[u8], sched: &[usize], opts: Opts, tbits: u32, limit: Option<usize>) -> String {
    let mut rd = match open_reader(bytes, sched, opts, tbits, limit) {
        Err(m) => return format!("PANIC read_info: {}", m),
        Ok(Err(e)) => return format!("RI:{}", e),
        Ok(Ok(r)) => r,
    };
    let mut s = match guarded(|| header_str(&rd)) {
        Ok(h) => h,
        Err(m) => format!("PANIC header: {}", m),
    };
    for k in 0..40 {
        let (r, _) = do_next_frame(&mut rd, 0);
        s.push_str(&format!(" | F{} {}", k, r));
        if !r.starts_with("ok") {
            break;
        }
    }
    match guarded(|| rd.finish()) {
        Err(m) => s.push_str(&format!(" | FIN PANIC {}", m)),
        Ok(Err(e)) => s.push_str(&format!(" | FIN {}", res_err(&e))),
        Ok(Ok(())) => s.push_str(" | FIN ok"),
    }
    s.push_str(&format!(" | INFO={}", info_dump(rd.info())));
    s
}

/// Per-frame pixels through next_frame (identity or given transform); None entries after the first failure.
pub fn decode_frames(bytes: &[u8], opts: Opts, tbits: u32, fill: u8) -> (String, Vec<(String, Vec<u8>)>) {
    let mut rd = match open_reader(bytes, &[0], opts, tbits, None) {
        Err(m) => return (format!("PANIC read_info: {}", m), vec![]),
        Ok(Err(e)) => return (format!("RI:{}", e), vec![]),
        Ok(Ok(r)) => r,
    };
    let mut v = vec![];
    let mut end = String::from("-");
    for _ in 0..40 {
        let (r, px) = do_next_frame(&mut rd, fill);
        match px {
            Some(p) => {
                let fc = rd.info().frame_control.as_ref().map(fctl_str).unwrap_or_else(|| "none".into());
                v.push((format!("{} fctl={}", r, fc), p));
            }
            None => {
                end = r;
                break;
            }
        }
    }
    (end, v)
}

/// Structured variant of `reader_summary`.
#[derive(Clone, Debug, PartialEq)]
pub struct Summary {
    pub ri: String,          // "ok" or the read_info error / panic
    pub header: String,
    pub frames: Vec<String>, // "ok ..." per delivered frame; the last entry is the first non-ok result
    pub fin: String,
    pub info: String,
}

impl Summary {
    pub fn frame_ok(&self, k: usize) -> bool {
        self.frames.get(k).map(|f| f.starts_with("ok")).unwrap_or(false)
    }
    pub fn any_panic(&self) -> bool {
        self.ri.starts_with("PANIC") || self.frames.iter().any(|f| f.starts_with("PANIC")) || self.fin.starts_with("PANIC") || self.header.starts_with("PANIC")
    }
    /// a decoding error was reported somewhere (the end-of-image answer that terminates the frame loop is not one)
    pub fn has_error(&self) -> bool {
        self.ri != "ok" || self.frames.iter().any(|f| f.starts_with("err") && f != "err:Param:PolledAfterEndOfImage") || self.fin.starts_with("err")
    }
    pub fn text(&self) -> String {
        format!("RI={} | {} | {} | FIN {} | INFO={}", self.ri, self.header, self.frames.join(" | "), self.fin, self.info)
    }
    /// everything except the metadata dump
    pub fn pixels_text(&self) -> String {
        format!("RI={} | {} | {} | FIN {}", self.ri, self.header, self.frames.join(" | "), self.fin)
    }
}

pub fn summarize(bytes: &[u8], sched: &[usize], opts: Opts, tbits: u32) -> Summary {
    let mut s = Summary { ri: "ok".into(), header: String::new(), frames: vec![], fin: "-".into(), info: "-".into() };
    let mut rd = match open_reader(bytes, sched, opts, tbits, None) {
        Err(m) => {
            s.ri = format!("PANIC read_info: {}", m);
            return s;
        }
        Ok(Err(e)) => {
            s.ri = e;
            return s;
        }
        Ok(Ok(r)) => r,
    };
    s.header = match guarded(|| header_str(&rd)) {
        Ok(h) => h,
        Err(m) => format!("PANIC header: {}", m),
    };
    for _ in 0..40 {
        let (r, _) = do_next_frame(&mut rd, 0);
        let ok = r.starts_with("ok");
        s.frames.push(r);
        if !ok {
            break;
        }
    }
    s.fin = match guarded(|| rd.finish()) {
        Err(m) => format!("PANIC {}", m),
        Ok(Err(e)) => res_err(&e),
        Ok(Ok(())) => "ok".into(),
    };
    s.info = info_dump(rd.info());
    s
}

/// value of one `|key=` field of an info dump
pub fn info_field<'a>(dump: &'a str, key: &str) -> &'a str {
    let pat = format!("|{}=", key);
    match dump.find(&pat) {
        Some(i) => {
            let rest = &dump[i + pat.len()..];
            if key == "text" { rest } else { &rest[..rest.find('|').unwrap_or(rest.len())] }
        }
        None => "?",
    }
}
