//! C18: after a fatal error, after finish() succeeded, or after the last frame, every further call returns promptly
//! with an error (or "no more rows"); no success fabricates pixels for a frame that failed or does not exist.
//! StreamingDecoder::reset returns the decoder to the behaviour of a newly created one.
use crate::c04::strip_d;
use crate::gen::*;
use crate::ops::*;
use crate::pngbuild::*;
use crate::readerrun::*;
use crate::refimpl::*;
use crate::streamrun::*;
use crate::util::*;
use png::{Decoded, StreamingDecoder};

fn viol(kind: &str, detail: Vec<(&str, String)>) -> String {
    let mut kv = vec![("kind", jstr(kind)), ("class", jstr(kind))];
    kv.extend(detail);
    jobj(&kv)
}

fn is_fatal(r: &str) -> bool {
    r.contains("err:Format:") || r.contains("err:Limits") || r.contains("err:Param:PolledAfterFatalError")
}

/// check one op-sequence trace against the "well behaved after the end" rules
fn check_trace(o: &mut Out, name: &str, bytes: &[u8], ops: &[Op], tr: &Trace, total_frames: Option<usize>) {
    let detail = |what: &str, at: usize| {
        vec![("file", jstr(name)), ("ops", jstr(&ops_string(ops))), ("what", jstr(what)), ("at_result", at.to_string()), ("bytes", jstr(&hex(bytes))), ("results", jstr(&tr.results.join(" | ")))]
    };
    if let Some(m) = &tr.panicked {
        o.violation(viol("panic-after-terminal-event-or-earlier", detail(m, tr.results.len())));
        return;
    }
    if tr.max_zero_run > 100_000 {
        o.violation(viol("call-spins-after-terminal-event", detail("zero-byte consume run", 0)));
    }
    let mut fatal_seen = false; // a stream-level fatal error was returned: nothing may succeed afterwards
    let mut finished = false; // finish() returned Ok
    let mut delivered = 0usize;
    let mut failed_frames: Vec<String> = vec![];
    for (i, r) in tr.results.iter().enumerate().skip(2) {
        let (op, rest) = r.split_once(' ').unwrap_or((r, ""));
        let ok_frame = op == "F" && rest.starts_with("ok");
        let ok_row = (op == "R" || op == "I" || op == "W") && rest.starts_with("some");
        let ok_info = op == "N" && rest.starts_with("ok");
        let ok_finish = op == "X" && rest == "ok";
        delivered = if i >= 1 { tr.delivered_after.get(i - 1).cloned().unwrap_or(0) } else { 0 };
        let all_delivered = total_frames.map(|t| delivered >= t).unwrap_or(false);
        if fatal_seen && (ok_frame || ok_row || ok_info || ok_finish) {
            o.violation(viol("success-after-fatal-error", detail(r, i)));
            return;
        }
        if finished && (ok_frame || ok_row || ok_info || ok_finish) {
            o.violation(viol("success-after-finish", detail(r, i)));
            return;
        }
        if all_delivered && (ok_frame || ok_row || ok_info) {
            o.violation(viol("frame-data-after-the-last-frame", detail(r, i)));
            return;
        }
        if ok_frame {
            // a frame that already failed must not be handed out as a success later
            let fctl = tr.delivered.get(delivered).map(|d| d.fctl.clone()).unwrap_or_default();
            if failed_frames.contains(&fctl) {
                o.violation(viol("success-for-a-frame-that-failed", detail(r, i)));
                return;
            }
        }
        if ok_row {
            // neither may a ROW of a frame in which a row-level call already failed for good (undefined filter byte, missing data)
            let fctl = rest.split("fctl=").nth(1).unwrap_or("").trim().to_string();
            if failed_frames.contains(&fctl) {
                o.violation(viol("success-for-a-frame-that-failed", detail(r, i)));
                return;
            }
        }
        if ok_finish {
            finished = true;
        }
        if is_fatal(rest) {
            if let Some(f) = rest.split(" @").nth(1) {
                if (op == "F" || op == "R" || op == "I" || op == "W") && !rest.contains("PolledAfter") {
                    failed_frames.push(f.to_string());
                }
            }
            // errors raised by the Reader itself (bad filter byte, missing data) do not poison the stream; stream-level ones do.
            // Either way no frame data of the failed frame may appear later; "fatal_seen" is only set for errors after which the
            // stream is known to be poisoned: the same call repeated returns PolledAfterFatalError
            if rest.contains("PolledAfterFatalError") {
                fatal_seen = true;
            }
        }
    }
}

/// frames that a bad-filter-byte image has: build with pngbuild directly
fn bad_filter_png(rng: &mut Rng, interlaced: bool) -> Vec<u8> {
    let s = ImageSpec { w: rng.range(2, 6) as u32, h: rng.range(3, 6) as u32, color: *rng.pick(&[0u8, 2, 6]), depth: 8, interlaced };
    let rows = random_rows(&s, s.w, s.h, rng);
    let nrows = if interlaced { adam7_rows_ref(s.w, s.h).len() } else { s.h as usize };
    let mut filters: Vec<u8> = (0..nrows).map(|_| rng.below(5) as u8).collect();
    let k = rng.range(1, nrows as u64 - 1) as usize;
    filters[k] = 9;
    simple_png(&s, &rows, &filters, 0, 1, rng).0
}

/// every further update of a dead decoder must be an error: with data, with one byte, with an empty slice
fn poll_dead(o: &mut Out, d: &mut StreamingDecoder, name: &str, when: &str) {
    let mut img = vec![];
    for slice in [&[][..], &[0u8][..], &[0x89u8, b'P', b'N', b'G', 13, 10, 26, 10][..], &[][..]] {
        let r = guarded(|| d.update(slice, &mut img).map(|(n, e)| format!("Ok({}, {:?})", n, e)).map_err(|e| err_class(&e)));
        if !matches!(r, Ok(Err(_))) {
            o.violation(viol("update-accepted-by-a-dead-decoder", vec![("file", jstr(name)), ("when", jstr(when)), ("slice_len", slice.len().to_string()), ("result", jstr(&format!("{:?}", r)))]));
            return;
        }
    }
}

fn l0_trace(dec: &mut StreamingDecoder, bytes: &[u8]) -> String {
    let mut evs = vec![];
    let mut pending = vec![];
    let mut buf = bytes;
    let mut end = "EOF".to_string();
    let mut guard = 0;
    while !buf.is_empty() {
        guard += 1;
        if guard > 10 * bytes.len() + 100 {
            end = "SPIN".into();
            break;
        }
        match guarded(|| dec.update(buf, &mut pending)) {
            Err(m) => {
                end = format!("PANIC {}", m);
                break;
            }
            Ok(Err(e)) => {
                end = format!("ERR:{}", err_class(&e));
                break;
            }
            Ok(Ok((n, ev))) => {
                buf = &buf[n..];
                match &ev {
                    Decoded::Nothing | Decoded::ImageData => {}
                    Decoded::ImageDataFlushed => {
                        evs.push(format!("F:{}:{}", pending.len(), hash(&pending)));
                        pending.clear();
                    }
                    Decoded::ImageEnd => {
                        evs.push("IE".into());
                        end = format!("IEND:{}", buf.len());
                        break;
                    }
                    other => evs.push(event_str(other).unwrap()),
                }
            }
        }
    }
    format!("{} END={} INFO={}", if evs.is_empty() { "-".to_string() } else { evs.join(";") }, end, dec.info().map(info_dump).unwrap_or_else(|| "none".into()))
}

pub fn run(a: &Args) {
    let mut o = Out::new(&a.out);
    let mut rng = Rng::new(a.seed);
    let thorough = a.tier == "thorough";
    // ---- files that fail at each stage, and valid ones
    let mut files: Vec<(String, Vec<u8>, Option<usize>)> = vec![];
    for k in 0..(if thorough { 80 } else { 30 }) {
        let b = valid_file(&mut rng, &GenOpts { maxw: 6, maxh: 5, anc: k % 2 == 0, animated: Some(k % 2 == 1) });
        files.push((b.name.clone(), b.bytes.clone(), Some(b.frames.len())));
        for _ in 0..3 {
            let (l, m) = if rng.chance(2, 3) { mutate_structural(&b.bytes, &mut rng) } else { mutate_bytes(&b.bytes, &mut rng) };
            files.push((format!("{}~{}", b.name, l), m, None));
        }
    }
    for k in 0..(if thorough { 40 } else { 8 }) {
        files.push((format!("bad-filter-{}", k), bad_filter_png(&mut rng, k % 2 == 1), None));
    }
    // a truncated stream whose pending back-reference completes rows in the very call that reports the corruption (inflater output buffer
    // exactly full: 2 literals + 127 matches of 258 bytes = 32768): no row of that frame may be delivered afterwards
    for (w, h, matches) in [(33000u32, 1u32, 128usize), (32767, 1, 127), (16383, 3, 128), (255, 200, 128), (63, 600, 129), (65535, 1, 200)] {
        use crate::pngbuild::*;
        let z = crate::c01::zlib_fixed_run_truncated(&[0, 0x55], matches);
        let bytes = assemble(&[ihdr(w, h, 8, 0, 0), Chunk::new(b"IDAT", z), Chunk::new(b"IEND", vec![])]);
        files.push((format!("pending-match-at-full-buffer-{}x{}-{}", w, h, matches), bytes, None));
    }
    // bytes behind IEND: further chunks (even a complete frame) must never be decoded, at either level
    for k in 0..(if thorough { 24 } else { 6 }) {
        use crate::pngbuild::*;
        let b = valid_file(&mut rng, &GenOpts { maxw: 4, maxh: 4, anc: false, animated: Some(k % 2 == 0) });
        let mut bytes = b.bytes.clone();
        let z = zlib_stored(&vec![0u8; 64], 64);
        for c in [fctl_chunk(90, 1, 1, 0, 0, 1, 1, 0, 0), fdat_chunk(91, &z), Chunk::new(b"IDAT", z.clone()), Chunk::new(b"tEXt", b"k\0after".to_vec()), Chunk::new(b"IEND", vec![])] {
            if rng.chance(2, 3) { bytes.extend(c.bytes()); }
        }
        // low level: after ImageEnd every further update() is refused
        let mut d = StreamingDecoder::new();
        let mut img = vec![];
        let mut buf = &bytes[..];
        let mut ended = false;
        let mut guard = 0;
        while !buf.is_empty() && guard < 100000 {
            guard += 1;
            match d.update(buf, &mut img) {
                Ok((n, Decoded::ImageEnd)) => { buf = &buf[n..]; ended = true; break; }
                Ok((n, _)) => buf = &buf[n..],
                Err(_) => break,
            }
        }
        o.direct_checks += 1;
        if ended {
            poll_dead(&mut o, &mut d, &b.name, "after ImageEnd");
        }
        if ended && !buf.is_empty() {
            let r = guarded(|| d.update(buf, &mut img).map(|(n, e)| format!("Ok({}, {:?})", n, e)).map_err(|e| err_class(&e)));
            if !matches!(r, Ok(Err(_))) {
                o.violation(viol("update-accepted-after-image-end", vec![("file", jstr(&b.name)), ("bytes", jstr(&hex(&bytes))), ("result", jstr(&format!("{:?}", r)))]));
            }
        }
        files.push((format!("{}+trailing", b.name), bytes, Some(b.frames.len())));
    }
    for (file_index, (name, bytes, total)) in files.iter().enumerate() {
        let kind = if name.contains('~') || total.is_none() { "failing-or-mutated" } else { "valid" };
        o.count(&format!("files.{}", kind));
        // sequences continuing well past the first terminal event: exhaustive short tails after a drain, random longer ones
        let heads: Vec<Vec<Op>> = vec![vec![Op::Frame; 6], vec![Op::Row; 40], vec![Op::Finish], vec![Op::FrameInfo; 5], vec![Op::ReadRow, Op::Frame, Op::Frame, Op::Frame, Op::Frame, Op::Frame], vec![Op::IRow, Op::Finish]];
        // thorough: every tail of length 3 for every file, every tail of length 4 for every 12th file (12 M sequences otherwise)
        let tail_len = if thorough && file_index % 12 == 0 { 4 } else { 3 };
        for (hi, head) in heads.iter().enumerate() {
            for code in 0..7u64.pow(tail_len as u32) {
                if !thorough && (code + hi as u64) % 3 != 0 {
                    continue;
                }
                let mut ops = head.clone();
                ops.extend(nth_sequence(code, tail_len));
                o.mark(&format!("ops {} {} {}", ops_string(&ops), name, hex(bytes)));
                let tr = run_ops(bytes, &[0], bytes.len(), Opts::default(), 0, None, &ops, 0x77);
                o.direct_checks += 1;
                check_trace(&mut o, name, bytes, &ops, &tr, *total);
            }
        }
        for _ in 0..(if thorough { 60 } else { 12 }) {
            let len = rng.range(8, 40) as usize;
            let ops = random_ops(&mut rng, len);
            o.mark(&format!("ops {} {} {}", ops_string(&ops), name, hex(bytes)));
            let tr = run_ops(bytes, &[0], bytes.len(), Opts::default(), (rng.below(8)) as u32, None, &ops, 0x77);
            o.direct_checks += 1;
            o.distinct(&format!("{}-{}-{}", kind, tr.delivered.len(), tr.results.last().map(|r| r.len() % 17).unwrap_or(0)));
            check_trace(&mut o, name, bytes, &ops, &tr, *total);
        }
    }
    // ---- finish() in the early-flush state: a highly compressible frame of more than 32 KiB whose data sequence is consumed and flushed while
    // its last rows are still buffered - after a successful finish() those rows must not be handed out either
    {
        use crate::pngbuild::*;
        for (w, h, nframes) in [(8u32, 3645u32, 1u32), (16, 1930, 2), (40, 900, 1)] {
            let mut chunks = vec![ihdr(w, h, 8, 0, 0)];
            if nframes > 1 { chunks.push(actl_chunk(nframes, 0)); }
            let mut seq = 0u32;
            for f in 0..nframes {
                let mut raw = vec![];
                for _ in 0..h { raw.push(0u8); raw.extend(std::iter::repeat(17u8.wrapping_mul(f as u8 + 1)).take(w as usize)); }
                let z = zlib_flate2(&raw, 9);
                if nframes > 1 { chunks.push(fctl_chunk(seq, w, h, 0, 0, 1, 10, 0, 0)); seq += 1; }
                if f == 0 { chunks.push(Chunk::new(b"IDAT", z)); } else { chunks.push(fdat_chunk(seq, &z)); seq += 1; }
            }
            chunks.push(Chunk::new(b"IEND", vec![]));
            let bytes = assemble(&chunks);
            let name = format!("tall-compressible-{}x{}x{}", w, h, nframes);
            for back in 1..=6usize {
                for tail in [vec![Op::Row, Op::Frame, Op::Row], vec![Op::Frame, Op::Frame], vec![Op::IRow, Op::ReadRow, Op::FrameInfo], vec![Op::ReadRow, Op::Finish, Op::Frame]] {
                    let mut ops: Vec<Op> = vec![];
                    if nframes > 1 { ops.push(Op::Frame); }
                    ops.extend((0..(h as usize - back)).map(|i| if i % 2 == 0 { Op::Row } else { Op::ReadRow }));
                    ops.push(Op::Finish);
                    ops.extend(tail);
                    o.mark(&format!("finish-in-early-flush {} back={} ops-tail={}", name, back, ops_string(&ops).chars().rev().take(8).collect::<String>()));
                    let tr = run_ops(&bytes, &[0], bytes.len(), Opts::default(), 0, None, &ops, 0x77);
                    o.direct_checks += 1;
                    o.count("finish-in-early-flush-state");
                    check_trace(&mut o, &name, &[], &ops, &tr, Some(nframes as usize));
                }
            }
        }
    }
    // ---- StreamingDecoder::reset: all ordered pairs from a set of streams (complete, truncated mid-IDAT, failing at each stage)
    let mut streams: Vec<(String, Vec<u8>)> = vec![];
    for k in 0..(if thorough { 10 } else { 5 }) {
        let b = valid_file(&mut rng, &GenOpts { maxw: 5, maxh: 4, anc: true, animated: Some(k % 2 == 0) });
        streams.push((b.name.clone(), b.bytes.clone()));
        // cut inside the image data, inside a chunk header, after the signature
        if let Some(p) = b.bytes.windows(4).position(|w| w == b"IDAT") {
            streams.push((format!("{}^midIDAT", b.name), b.bytes[..(p + 9).min(b.bytes.len())].to_vec()));
        }
        streams.push((format!("{}^hdr", b.name), b.bytes[..rng.range(9, 30) as usize].to_vec()));
        let (l, m) = mutate_structural(&b.bytes, &mut rng);
        streams.push((format!("{}~{}", b.name, l), m));
    }
    // streams whose compressed image data is corrupt at different depths: right behind the zlib header (bad block type), in the zlib
    // header itself, in the middle of the data, in the Adler-32 trailer (fed whole, the inflater sees header and fault in one call)
    {
        use crate::pngbuild::*;
        let raw = vec![0u8, 1, 2, 3, 0, 4, 5, 6];
        let good = zlib_stored(&raw, 64);
        let mut variants: Vec<(&str, Vec<u8>)> = vec![("bad-block-type", vec![0x78, 0x01, 0x07, 0, 0, 0, 0]), ("bad-zlib-header", vec![0x79, 0x01, 0x01, 0, 0])];
        let mut mid = good.clone(); let k = mid.len() / 2; mid[k] ^= 0xff; variants.push(("corrupt-middle", mid));
        let mut adl = good.clone(); let k = adl.len() - 1; adl[k] ^= 0x01; variants.push(("wrong-adler", adl));
        variants.push(("empty-idat", vec![]));
        for (label, z) in variants {
            streams.push((format!("3x2-{}", label), assemble(&[ihdr(3, 2, 8, 0, 0), Chunk::new(b"IDAT", z), Chunk::new(b"IEND", vec![])])));
        }
        streams.push(("3x2-good".into(), assemble(&[ihdr(3, 2, 8, 0, 0), Chunk::new(b"IDAT", good), Chunk::new(b"IEND", vec![])])));
    }
    // a decoder that has reported a fatal error or the end of the image refuses every further update - whatever slice it is offered, an empty one included
    for (na, sa) in &streams {
        let mut d = StreamingDecoder::new();
        let t = l0_trace(&mut d, sa);
        o.direct_checks += 1;
        if t.contains("END=ERR:Format") || t.contains("END=IEND") {
            poll_dead(&mut o, &mut d, na, if t.contains("END=IEND") { "after ImageEnd" } else { "after a fatal format error" });
            o.count("dead-decoder-polled");
        }
    }
    for (na, sa) in &streams {
        for (nb, sb) in &streams {
            for opts in [Opts::default(), Opts { ignore_crc: true, ignore_adler: false, ..Opts::default() }] {
                o.mark(&format!("reset {} then {} : {} / {}", na, nb, hex(sa), hex(sb)));
                let mut d = StreamingDecoder::new_with_options(opts.to_png());
                let _ = l0_trace(&mut d, sa);
                d.reset();
                let after = l0_trace(&mut d, sb);
                let mut fresh = StreamingDecoder::new_with_options(opts.to_png());
                let want = l0_trace(&mut fresh, sb);
                o.direct_checks += 1;
                o.count("reset-pairs");
                if after != want {
                    o.violation(viol("decoder-after-reset-differs-from-a-new-one", vec![("first", jstr(na)), ("second", jstr(nb)), ("opts", opts.bits().to_string()),
                        ("first_bytes", jstr(&hex(sa))), ("second_bytes", jstr(&hex(sb))), ("after_reset", jstr(&after)), ("fresh", jstr(&want))]));
                }
                if sa.len() + sb.len() <= 700 && rng.chance(1, 6) {
                    // the model's reset
                    let text = {
                        let mut d2 = StreamingDecoder::new_with_options(opts.to_png());
                        let _ = l0_trace(&mut d2, sa);
                        d2.reset();
                        let r = run_l0_on(&mut d2, sb);
                        strip_d(&r)
                    };
                    o.case(&format!("l0reset {} {} {} {}", opts.bits(), 67108864u64, hex(sa), hex(sb)), &text, "reset", true);
                }
            }
        }
    }
    // ---- reset after a stream that made the chunk buffer grow (a chunk larger than the initial 32 KiB): the next stream - again with large
    // chunks - must be reported through exactly the (consumed, event) sequence a new decoder gives (PartialChunk events show the buffer size)
    {
        use crate::pngbuild::*;
        let big = |n: usize, kind: &[u8; 4]| -> Vec<u8> {
            let mut payload = b"Comment\0".to_vec();
            payload.extend((0..n).map(|i| b'a' + (i % 23) as u8));
            assemble(&[ihdr(1, 1, 8, 0, 0), Chunk::new(kind, payload), Chunk::new(b"IDAT", zlib_stored(&[0, 7], 64)), Chunk::new(b"IEND", vec![])])
        };
        let bigs: Vec<(String, Vec<u8>)> = vec![("text-100000".into(), big(100000, b"tEXt")), ("text-40000".into(), big(40000, b"tEXt")), ("private-70000".into(), big(70000, b"prVt")),
            ("text-300".into(), big(300, b"tEXt"))];
        for (na, sa) in &bigs {
            for (nb, sb) in &bigs {
                o.mark(&format!("reset-big {} then {}", na, nb));
                let opts = Opts::default();
                let mut d = StreamingDecoder::new_with_options(opts.to_png());
                let _ = l0_trace(&mut d, sa);
                d.reset();
                let after = l0_trace(&mut d, sb);
                let mut fresh = StreamingDecoder::new_with_options(opts.to_png());
                let want = l0_trace(&mut fresh, sb);
                o.direct_checks += 1;
                o.count("reset-pairs-big-chunks");
                if after != want {
                    let cut = |t: &str| t.chars().take(600).collect::<String>();
                    o.violation(viol("decoder-after-reset-differs-from-a-new-one", vec![("first", jstr(na)), ("second", jstr(nb)), ("opts", opts.bits().to_string()),
                        ("after_reset", jstr(&cut(&after))), ("fresh", jstr(&cut(&want)))]));
                }
            }
        }
    }
    o.mark("done");
    o.finish();
}

/// run_l0-style text (with PartialChunk events) on an existing decoder
fn run_l0_on(dec: &mut StreamingDecoder, bytes: &[u8]) -> String {
    let mut evs: Vec<String> = vec![];
    let mut pending = vec![];
    let mut buf = bytes;
    let mut end = "EOF".to_string();
    let mut in_data = false;
    while !buf.is_empty() {
        match guarded(|| dec.update(buf, &mut pending)) {
            Err(m) => {
                end = format!("PANIC {}", m);
                break;
            }
            Ok(Err(e)) => {
                end = format!("ERR:{}", err_class(&e));
                break;
            }
            Ok(Ok((n, ev))) => {
                buf = &buf[n..];
                match &ev {
                    Decoded::Nothing => {}
                    Decoded::ImageData => {
                        if !in_data {
                            evs.push("D".into());
                        }
                        in_data = true;
                    }
                    Decoded::ImageDataFlushed => {
                        evs.push(format!("F:{}:{}", pending.len(), hash(&pending)));
                        pending.clear();
                        in_data = false;
                    }
                    Decoded::ImageEnd => {
                        evs.push("IE".into());
                        end = format!("IEND:{}", buf.len());
                        break;
                    }
                    other => {
                        evs.push(event_str(other).unwrap());
                        in_data = false;
                    }
                }
            }
        }
    }
    format!("{} END={} INFO={}", if evs.is_empty() { "-".to_string() } else { evs.join(";") }, end, dec.info().map(info_dump).unwrap_or_else(|| "none".into()))
}

pub fn replay(_case: &str) -> String {
    "unknown-case".into()
}
