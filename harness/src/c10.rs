//! C10: structurally invalid streams are rejected no later than the affected frame.
//! Fault injection (CRCs recomputed) at every site of every listed class over generated valid files, plus all
//! chunk-kind sequences up to a bounded length against a reference ordering automaton; L0 model correspondence.
use crate::c04::strip_d;
use crate::gen::*;
use crate::pngbuild::*;
use crate::readerrun::*;
use crate::refimpl::*;
use crate::streamrun::*;
use crate::util::*;

fn viol(kind: &str, detail: Vec<(&str, String)>) -> String {
    let mut kv = vec![("kind", jstr(kind)), ("class", jstr(kind))];
    kv.extend(detail);
    jobj(&kv)
}

fn is_data(c: &Chunk) -> bool {
    &c.ty == b"IDAT" || &c.ty == b"fdAT"
}

/// frame index (in next_frame order) each chunk belongs to
pub fn frame_of(chunks: &[Chunk]) -> Vec<usize> {
    let mut v = vec![];
    let mut f = 0usize;
    let mut seen_idat = false;
    for c in chunks {
        if &c.ty == b"IDAT" {
            seen_idat = true;
        }
        if &c.ty == b"fcTL" && seen_idat {
            f += 1;
        }
        v.push(f);
    }
    v
}

/// first frame that has a data chunk at index >= i (None: only the trailer is affected)
fn affected_from(chunks: &[Chunk], i: usize) -> Option<usize> {
    let fo = frame_of(chunks);
    (i..chunks.len()).find(|&j| is_data(&chunks[j])).map(|j| fo[j])
}

/// assign consecutive sequence numbers to fcTL / fdAT chunks in file order
fn renumber(chunks: &mut [Chunk]) {
    let mut seq = 0u32;
    for c in chunks.iter_mut() {
        if (&c.ty == b"fcTL" || &c.ty == b"fdAT") && c.data.len() >= 4 {
            c.data[..4].copy_from_slice(&seq.to_be_bytes());
            seq += 1;
        }
    }
}

struct Inj {
    label: String,
    bytes: Vec<u8>,
    /// Some(k): frame k must not be delivered Ok; None: an error must be reported somewhere (frames or finish)
    frame: Option<usize>,
}

fn injections(b: &Built, rng: &mut Rng) -> Vec<Inj> {
    let chunks = parse(&b.bytes).unwrap();
    let n = chunks.len();
    let fo = frame_of(&chunks);
    let mut v = vec![];
    let asm = |c: &[Chunk]| assemble(c);
    // 1 signature
    {
        let mut f = b.bytes.clone();
        let k = rng.below(8) as usize;
        f[k] ^= 1 << rng.below(8);
        v.push(Inj { label: format!("signature@{}", k), bytes: f, frame: Some(0) });
    }
    // 2 first chunk not IHDR / second IHDR
    {
        let mut c = chunks.clone();
        c.insert(0, Chunk::new(b"tEXt", b"k\0v".to_vec()));
        v.push(Inj { label: "chunk-before-IHDR".into(), bytes: asm(&c), frame: Some(0) });
        let mut c = chunks.clone();
        c.swap(0, 1);
        v.push(Inj { label: "IHDR-not-first".into(), bytes: asm(&c), frame: Some(0) });
        let i = rng.range(1, n as u64 - 1) as usize;
        let mut c = chunks.clone();
        // keep data runs intact: an IHDR between two data chunks of a run would (also) be a consecutiveness violation, which is fine
        c.insert(i, chunks[0].clone());
        v.push(Inj { label: format!("second-IHDR#{}", i), bytes: asm(&c), frame: affected_from(&c, i) });
        // the same structural violations with a chunk of LENGTH ZERO (a second IHDR / a second PLTE stays one whatever its length)
        let mut c = chunks.clone();
        c.insert(1, Chunk::new(b"IHDR", vec![]));
        v.push(Inj { label: "zero-length-second-IHDR#1".into(), bytes: asm(&c), frame: Some(0) });
        if let Some(pi) = chunks.iter().position(|x| &x.ty == b"PLTE") {
            let mut c = chunks.clone();
            c.insert(pi + 1, Chunk::new(b"PLTE", vec![]));
            v.push(Inj { label: format!("zero-length-second-PLTE#{}", pi + 1), bytes: asm(&c), frame: Some(0) });
        }
    }
    // 3 illegal IHDR fields
    for (pos, val, what) in [
        (8usize, *rng.pick(&[0u8, 3, 5, 6, 7, 9, 12, 32, 255]), "depth"),
        (9, *rng.pick(&[1u8, 5, 7, 8, 255]), "colour"),
        (10, *rng.pick(&[1u8, 2, 255]), "compression"),
        (11, *rng.pick(&[1u8, 2, 255]), "filter-method"),
        (12, *rng.pick(&[2u8, 3, 255]), "interlace"),
    ] {
        let mut c = chunks.clone();
        c[0].data[pos] = val;
        v.push(Inj { label: format!("IHDR-{}={}", what, val), bytes: asm(&c), frame: Some(0) });
    }
    {
        let (bc, bd) = *rng.pick(&[(2u8, 1u8), (2, 2), (2, 4), (3, 16), (4, 1), (4, 2), (4, 4), (6, 1), (6, 2), (6, 4)]);
        let mut c = chunks.clone();
        c[0].data[8] = bd;
        c[0].data[9] = bc;
        v.push(Inj { label: format!("IHDR-pair-c{}d{}", bc, bd), bytes: asm(&c), frame: Some(0) });
        for pos in [0usize, 4] {
            let mut c = chunks.clone();
            c[0].data[pos..pos + 4].copy_from_slice(&[0, 0, 0, 0]);
            v.push(Inj { label: format!("IHDR-zero-dim@{}", pos), bytes: asm(&c), frame: Some(0) });
        }
    }
    // 4 second PLTE
    {
        let first_idat = chunks.iter().position(|c| &c.ty == b"IDAT").unwrap();
        let mut c = chunks.clone();
        match chunks.iter().position(|x| &x.ty == b"PLTE") {
            Some(p) => {
                let i = rng.range(p as u64 + 1, first_idat as u64) as usize;
                c.insert(i, chunks[p].clone());
                v.push(Inj { label: format!("second-PLTE#{}", i), bytes: asm(&c), frame: Some(0) });
            }
            None => {
                if b.spec.color == 2 || b.spec.color == 6 {
                    c.insert(first_idat, palette_chunk(3, rng));
                    c.insert(first_idat, palette_chunk(2, rng));
                    v.push(Inj { label: "two-PLTE-truecolour".into(), bytes: asm(&c), frame: Some(0) });
                }
            }
        }
    }
    // 5 no image data
    if !b.animated {
        let c: Vec<Chunk> = chunks.iter().filter(|c| &c.ty != b"IDAT").cloned().collect();
        v.push(Inj { label: "no-IDAT".into(), bytes: asm(&c), frame: Some(0) });
    }
    // 6 non-consecutive IDAT: the zlib stream cut in two non-empty halves with an ancillary chunk between them
    {
        let z: Vec<u8> = chunks.iter().filter(|c| &c.ty == b"IDAT").flat_map(|c| c.data.clone()).collect();
        if z.len() >= 2 {
            let cut = rng.range(1, z.len() as u64 - 1) as usize;
            let first = chunks.iter().position(|c| &c.ty == b"IDAT").unwrap();
            let mut c: Vec<Chunk> = vec![];
            for (i, ch) in chunks.iter().enumerate() {
                if i == first {
                    c.push(Chunk::new(b"IDAT", z[..cut].to_vec()));
                    c.push(if rng.chance(1, 2) { Chunk::new(b"tEXt", b"k\0v".to_vec()) } else { Chunk::new(b"prVt", vec![1, 2, 3]) });
                    c.push(Chunk::new(b"IDAT", z[cut..].to_vec()));
                } else if &ch.ty != b"IDAT" {
                    c.push(ch.clone());
                }
            }
            v.push(Inj { label: "IDAT-not-consecutive".into(), bytes: asm(&c), frame: Some(0) });
        }
    }
    // 7 truncated / corrupt compressed stream of a random frame
    {
        let data_idx: Vec<usize> = (0..n).filter(|&i| is_data(&chunks[i])).collect();
        let frames: Vec<usize> = {
            let mut f: Vec<usize> = data_idx.iter().map(|&i| fo[i]).collect();
            f.dedup();
            f
        };
        let fr = *rng.pick(&frames);
        let of_frame: Vec<usize> = data_idx.iter().cloned().filter(|&i| fo[i] == fr).collect();
        let hdr = |c: &Chunk| if &c.ty == b"fdAT" { 4 } else { 0 };
        // last chunk with payload
        if let Some(&last) = of_frame.iter().rev().find(|&&i| chunks[i].data.len() > hdr(&chunks[i])) {
            let avail = chunks[last].data.len() - hdr(&chunks[last]);
            if avail >= 6 {
                let mut c = chunks.clone();
                let cut = rng.range(5, (avail - 1).min(12) as u64) as usize;
                let l = c[last].data.len();
                c[last].data.truncate(l - cut);
                // later (empty) data chunks of the frame stay as they are
                v.push(Inj { label: format!("zlib-truncated-by-{}#f{}", cut, fr), bytes: asm(&c), frame: Some(fr) });
            }
        }
        let first = of_frame[0];
        if chunks[first].data.len() > hdr(&chunks[first]) {
            let mut c = chunks.clone();
            let h = hdr(&c[first]);
            c[first].data[h] = *rng.pick(&[0x00u8, 0x79, 0x88, 0x0f]); // CM != 8 or CINFO > 7
            v.push(Inj { label: format!("zlib-bad-header#f{}", fr), bytes: asm(&c), frame: Some(fr) });
        }
    }
    // 9 sequence numbers out of order
    {
        let seqd: Vec<usize> = (0..n).filter(|&i| &chunks[i].ty == b"fcTL" || &chunks[i].ty == b"fdAT").collect();
        if !seqd.is_empty() {
            let i = *rng.pick(&seqd);
            let mut c = chunks.clone();
            let old = u32::from_be_bytes([c[i].data[0], c[i].data[1], c[i].data[2], c[i].data[3]]);
            let new = *rng.pick(&[old.wrapping_add(1), old.wrapping_sub(1), old.wrapping_add(2), 0xffff_ffff, old ^ 0x100]);
            if new != old {
                c[i].data[..4].copy_from_slice(&new.to_be_bytes());
                // an fcTL placed before IDAT belongs to frame 0; otherwise the frame of the chunk
                v.push(Inj { label: format!("seq-{}->{}#{}", old, new, i), bytes: asm(&c), frame: Some(fo[i]) });
            }
            // 11 fdAT shorter than its sequence number
            if let Some(&j) = seqd.iter().find(|&&j| &chunks[j].ty == b"fdAT") {
                let mut c = chunks.clone();
                c[j].data.truncate(rng.below(4) as usize);
                v.push(Inj { label: format!("fdAT-short#{}", j), bytes: asm(&c), frame: Some(fo[j]) });
            }
            // 10 frame data without a preceding frame control (sequence numbers kept consecutive)
            // (only the frame that follows the IDAT run: removing a later fcTL merely merges two fdAT runs into one
            //  sequence whose surplus data is ignored, which is not one of the listed violations)
            let fctls: Vec<usize> = (0..n).filter(|&i| &chunks[i].ty == b"fcTL" && fo[i] == 1).collect();
            if !fctls.is_empty() {
                let j = *rng.pick(&fctls);
                let mut c = chunks.clone();
                c.remove(j);
                renumber(&mut c);
                v.push(Inj { label: format!("fdAT-without-fcTL#f{}", fo[j]), bytes: asm(&c), frame: Some(fo[j]) });
            }
            // 12 frame rectangle empty / outside the canvas / wrapping around
            let all_fctl: Vec<usize> = (0..n).filter(|&i| &chunks[i].ty == b"fcTL").collect();
            let j = *rng.pick(&all_fctl);
            let (w, h) = (b.spec.w, b.spec.h);
            let get = |c: &Chunk, o: usize| u32::from_be_bytes([c.data[o], c.data[o + 1], c.data[o + 2], c.data[o + 3]]);
            let (fw, fh) = (get(&chunks[j], 4), get(&chunks[j], 8));
            let variants: Vec<(usize, u32, &str)> = vec![
                (4, 0, "w=0"), (8, 0, "h=0"), (12, w - fw + 1, "x-outside"), (16, h - fh + 1, "y-outside"),
                (12, 0xffff_ffff - fw + 1, "x-wraps"), (16, 0xffff_ffff - fh + 1, "y-wraps"), (4, w + 1, "w-too-big"), (8, 0x8000_0000, "h-huge"),
            ];
            let (off, val, what) = variants[rng.below(variants.len() as u64) as usize];
            let mut c = chunks.clone();
            c[j].data[off..off + 4].copy_from_slice(&val.to_be_bytes());
            v.push(Inj { label: format!("fcTL-{}#f{}", what, fo[j]), bytes: asm(&c), frame: Some(fo[j]) });
        }
    }
    v
}

/// 8 undefined filter byte at a chosen row
fn bad_filter_file(rng: &mut Rng) -> Inj {
    let s = random_spec(rng, 9, 7);
    let rows = random_rows(&s, s.w, s.h, rng);
    let nrows = if s.interlaced { adam7_rows_ref(s.w, s.h).len() } else { s.h as usize };
    let mut filters: Vec<u8> = (0..nrows).map(|_| rng.below(5) as u8).collect();
    let k = rng.below(nrows as u64) as usize;
    filters[k] = *rng.pick(&[5u8, 6, 7, 8, 64, 128, 255]);
    let ck = rng.below(7);
    let (file, _) = simple_png(&s, &rows, &filters, ck, 1 + rng.below(3) as usize, rng);
    Inj { label: format!("filter-byte-{}@row{}of{}", filters[k], k, nrows), bytes: file, frame: Some(0) }
}

// ---------------------------------------------------------------- reference ordering automaton
const ALPHA: [&str; 9] = ["IHDR", "PLTE", "IDAT", "IDAT0", "tEXt", "acTL", "fcTL", "fdAT", "IEND"];

/// Does the chunk-kind sequence violate one of the listed structural rules (None = no) ?
fn automaton(seq: &[usize]) -> Option<&'static str> {
    let mut have_ihdr = false;
    let mut plte = 0;
    let mut idat_run_open = false;
    let mut idat_run_closed = false;
    let mut have_data = false;
    let mut fctl_pending = false; // an fcTL seen since the last data run
    let mut fdat_run_open = false;
    for (i, &k) in seq.iter().enumerate() {
        let name = ALPHA[k];
        if i == 0 && name != "IHDR" {
            return Some("first chunk not IHDR");
        }
        if name != "IDAT" && name != "IDAT0" && idat_run_open {
            idat_run_open = false;
            idat_run_closed = true;
        }
        if name != "fdAT" && fdat_run_open {
            fdat_run_open = false;
            fctl_pending = false;
        }
        match name {
            "IHDR" => {
                if have_ihdr {
                    return Some("second IHDR");
                }
                have_ihdr = true;
            }
            "PLTE" => {
                plte += 1;
                if plte > 1 {
                    return Some("second PLTE");
                }
            }
            "IDAT" | "IDAT0" => {
                if idat_run_closed {
                    return Some("IDAT not consecutive");
                }
                idat_run_open = true;
                have_data = true;
                fctl_pending = false;
            }
            "fcTL" => fctl_pending = true,
            "fdAT" => {
                if !fctl_pending && !fdat_run_open {
                    return Some("fdAT without fcTL");
                }
                fdat_run_open = true;
                have_data = true; // the rule the decoder enforces is "no image data at all": frame data counts
            }
            "IEND" => {
                if !have_data {
                    return Some("no image data");
                }
                return None; // chunks after IEND are not looked at
            }
            _ => {}
        }
    }
    None
}

fn build_seq(seq: &[usize]) -> Vec<u8> {
    let raw = [0u8, 7, 1, 9]; // 1x1 RGB8... no: gray8 2x... one row: filter 0 + pixel
    let z = zlib_stored(&raw[..2], 10);
    let mut chunks = vec![];
    let mut sq = 0u32;
    for &k in seq {
        chunks.push(match ALPHA[k] {
            "IHDR" => ihdr(1, 1, 8, 0, 0),
            "PLTE" => Chunk::new(b"PLTE", vec![1, 2, 3]),
            "IDAT" => Chunk::new(b"IDAT", z.clone()),
            "IDAT0" => Chunk::new(b"IDAT", vec![]),
            "tEXt" => Chunk::new(b"tEXt", b"k\0v".to_vec()),
            "acTL" => actl_chunk(2, 0),
            "fcTL" => {
                sq += 1;
                fctl_chunk(sq - 1, 1, 1, 0, 0, 1, 1, 0, 0)
            }
            "fdAT" => {
                sq += 1;
                fdat_chunk(sq - 1, &z)
            }
            _ => Chunk::new(b"IEND", vec![]),
        });
    }
    assemble(&chunks)
}

fn check_injection(o: &mut Out, base: &str, inj: &Inj, opts: Opts, base_frames: &[String]) {
    o.mark(&format!("inj {} {} {}", base, inj.label, hex(&inj.bytes)));
    let s = summarize(&inj.bytes, &[0], opts, 0);
    o.direct_checks += 1;
    let class = inj.label.split(|c| c == '#' || c == '@' || c == '=').next().unwrap_or("").to_string();
    o.count(&format!("inject.{}", class));
    o.distinct(&format!("{}-{}", class, base.len() % 13));
    let first_err = if s.ri != "ok" { s.ri.clone() } else { s.frames.iter().find(|f| !f.starts_with("ok")).cloned().unwrap_or_else(|| s.fin.clone()) };
    o.count(&format!("outcome.{}", first_err.split(' ').next().unwrap_or("")));
    let bad = if s.any_panic() {
        Some("panic-on-invalid-stream")
    } else {
        match inj.frame {
            Some(k) => {
                if s.ri == "ok" && s.frame_ok(k) {
                    Some("invalid-structure-decoded-successfully")
                } else {
                    None
                }
            }
            None => {
                let any_err = s.has_error();
                if any_err { None } else { Some("invalid-structure-never-reported") }
            }
        }
    };
    if let Some(kind) = bad {
        // known finding: the violation sits BEHIND the last byte the frame's rows needed (tail of its data run): the frame is delivered with the
        // pixels of the valid file, nothing after it is delivered, and the error is reported by the following call (or by finish())
        let late = match inj.frame {
            Some(k) if kind == "invalid-structure-decoded-successfully" =>
                (0..=k).all(|j| s.frames.get(j).map_or(false, |f| base_frames.get(j) == Some(f)))
                && !s.frames.iter().skip(k + 1).any(|f| f.starts_with("ok"))
                && (s.frames.iter().skip(k + 1).any(|f| f.starts_with("err:Format")) || s.fin.starts_with("err:Format")),
            _ => false,
        };
        // known finding: a chunk of length zero goes from its header straight to its CRC - no parser (and none of the once-only rules) sees it
        let zero_len = inj.label.starts_with("zero-length-") && kind == "invalid-structure-decoded-successfully";
        let kind_class = if late { "structure-violation-behind-the-rows-of-a-frame-reported-one-call-late" } else if zero_len { "zero-length-chunk-never-reaches-its-parser" } else { kind };
        let mut v = viol(kind, vec![("base", jstr(base)), ("injection", jstr(&inj.label)), ("affected_frame", format!("{:?}", inj.frame).replace("Some(", "").replace(')', "").replace("None", "\"trailer\"")),
            ("opts", opts.bits().to_string()), ("bytes", jstr(&hex(&inj.bytes))), ("result", jstr(&s.pixels_text()))]);
        v = v.replacen(&format!("\"class\": \"{}\"", kind), &format!("\"class\": \"{}\"", kind_class), 1);
        o.violation(v);
    }
}

/// After the error for an invalid structure has been returned, asking again must not hand out rows or frames after all
/// (row by row up to the error, then three more row requests and two frame requests).
fn check_polling_after_error(o: &mut Out, base: &str, inj: &Inj, opts: Opts) {
    let mut rd = match open_reader(&inj.bytes, &[0], opts, 0, None) { Ok(Ok(r)) => r, _ => return };
    o.direct_checks += 1;
    let r = guarded(|| -> Option<String> {
        let mut errored: Option<String> = None;
        let mut after: Vec<String> = vec![];
        let mut rows_left = 5000usize;
        let mut frames_done = 0usize;
        loop {
            if errored.is_some() && after.len() >= 5 { break; }
            let frame_call = errored.is_some() && after.len() >= 3;
            if frame_call {
                let (r, _) = do_next_frame(&mut rd, 0);
                after.push(format!("next_frame: {}", r.split(' ').next().unwrap_or("")));
            } else {
                match rd.next_row() {
                    Ok(Some(_)) => { if errored.is_some() { after.push("next_row: ok-row".into()); } rows_left -= 1; if rows_left == 0 { return None; } }
                    Ok(None) => {
                        if errored.is_some() { after.push("next_row: none".into()); continue; }
                        frames_done += 1;
                        if frames_done > 40 { return None; }
                        // the frame is complete: go on to the next one (its first row request starts it)
                        if rd.info().animation_control.map_or(true, |a| frames_done as u32 >= a.num_frames + 1) { return None; }
                    }
                    Err(e) => { if errored.is_some() { after.push(format!("next_row: {}", res_err(&e).split(' ').next().unwrap_or(""))); } else { errored = Some(res_err(&e)); } }
                }
            }
        }
        if after.iter().any(|x| x.contains("ok")) { Some(format!("first error {} ; then {}", errored.unwrap_or_default(), after.join(" , "))) } else { None }
    });
    match r {
        Ok(None) => {}
        Ok(Some(why)) => o.violation(viol("rows-or-frames-handed-out-after-the-error-for-an-invalid-structure", vec![("base", jstr(base)), ("injection", jstr(&inj.label)), ("bytes", jstr(&hex(&inj.bytes))), ("history", jstr(&why))])),
        Err(m) => o.violation(viol("panic-on-invalid-stream", vec![("base", jstr(base)), ("injection", jstr(&inj.label)), ("bytes", jstr(&hex(&inj.bytes))), ("panic", jstr(&m))])),
    }
}

pub fn run(a: &Args) {
    let mut o = Out::new(&a.out);
    let mut rng = Rng::new(a.seed);
    let thorough = a.tier == "thorough";
    // CRC checking stays on (the CRCs are repaired); also with checks disabled the structure must be refused
    let optsets = [Opts::default(), Opts { ignore_crc: true, ..Opts::default() }, Opts { skip_anc_crc: false, ..Opts::default() }];
    let g = GenOpts { maxw: 8, maxh: 7, anc: true, animated: None };
    for fi in 0..(if thorough { 2500 } else { 160 }) {
        let b = valid_file(&mut rng, &GenOpts { animated: Some(fi % 2 == 0), ..GenOpts { ..GenOpts { maxw: g.maxw, maxh: g.maxh, anc: g.anc, animated: None } } });
        // the base file itself must decode (otherwise the injections prove nothing)
        let base = summarize(&b.bytes, &[0], Opts::default(), 0);
        if base.ri != "ok" || !(0..b.frames.len()).all(|k| base.frame_ok(k)) || base.fin != "ok" {
            o.notes.push(format!("generated base file rejected (not counted): {} {}", b.name, base.pixels_text()));
            continue;
        }
        let opts = optsets[fi % optsets.len()];
        let mut injs = injections(&b, &mut rng);
        injs.push(bad_filter_file(&mut rng));
        // with Adler-32 verification switched on, a compressed stream whose checksum does not match is a corrupt stream - in EVERY frame
        // (the inflater is reset between frames; the option is the caller's, not per-stream state)
        if fi % 2 == 0 {
            let chunks = parse(&b.bytes).unwrap();
            let fo = frame_of(&chunks);
            let adler_on = Opts { ignore_adler: false, ..Opts::default() };
            for k in 0..b.frames.len() {
                if let Some(last) = (0..chunks.len()).filter(|&i| is_data(&chunks[i]) && fo[i] == k).last() {
                    let mut c2 = chunks.clone();
                    let n = c2[last].data.len();
                    if n == 0 || (c2[last].ty == *b"fdAT" && n <= 4) { continue; }
                    c2[last].data[n - 1] ^= 0x01;
                    c2[last].crc = None;
                    let inj = Inj { label: format!("adler-mismatch#f{}", k), bytes: assemble(&c2), frame: Some(k) };
                    check_injection(&mut o, &b.name, &inj, adler_on, &base.frames);
                }
            }
        }
        for inj in &injs {
            check_injection(&mut o, &b.name, inj, opts, &base.frames);
            check_polling_after_error(&mut o, &b.name, inj, opts);
            if inj.bytes.len() <= 500 && rng.chance(1, 6) {
                let r = run_l0(&[inj.bytes.clone()], opts, None);
                o.case(&format!("l0 {} {} 0 {}", opts.bits(), 67108864u64, hex(&inj.bytes)), &strip_d(&r.text), &inj.label, true);
            }
        }
    }
    // a frame that is too short, behind a frame with surplus rows whose tail the inflater releases only with the end-of-sequence flush
    // (highly compressible frames a little above 32 / 64 KiB): the surplus of one frame must not complete the next one
    for (w, producer) in [(15u32, 1u8), (63, 0), (15, 2), (31, 1)] {
        for h in crate::gen::heights_just_above_buffer_sizes(w as usize + 1, if thorough { 6 } else { 3 }).into_iter().take(if thorough { 14 } else { 8 }) {
            for (surplus, missing) in [(1u32, 1u32), (2, 1), (3, 3)] {
                let good = crate::gen::held_back_tail_file(w, h, 2, producer, &[surplus, 0], &[]);
                let base = summarize(&good.bytes, &[0], Opts::default(), 0);
                if !(base.frame_ok(0) && base.frame_ok(1)) { o.notes.push(format!("held-back-tail base rejected: {}", good.name)); continue; }
                let bad = crate::gen::held_back_tail_file(w, h, 2, producer, &[surplus, 0], &[0, missing]);
                let inj = Inj { label: format!("frame-data-too-short-after-surplus#f1 {}", bad.name), bytes: bad.bytes.clone(), frame: Some(1) };
                check_injection(&mut o, &good.name, &inj, Opts::default(), &base.frames);
                check_polling_after_error(&mut o, &good.name, &inj, Opts::default());
            }
        }
    }
    // a truncated stream whose pending back-reference completes rows in the very call that reports the corruption
    for (w, h, matches) in [(33000u32, 1u32, 128usize), (255, 200, 128), (63, 600, 129)] {
        let z = crate::c01::zlib_fixed_run_truncated(&[0, 0x55], matches);
        let bytes = assemble(&[ihdr(w, h, 8, 0, 0), Chunk::new(b"IDAT", z), Chunk::new(b"IEND", vec![])]);
        let inj = Inj { label: format!("zlib-truncated-with-pending-match#{}x{}", w, h), bytes, frame: Some(0) };
        check_injection(&mut o, "crafted", &inj, Opts::default(), &[]);
        check_polling_after_error(&mut o, "crafted", &inj, Opts::default());
    }
    // chunk-kind sequences against the reference automaton
    let maxlen = if thorough { 6 } else { 5 };
    let mut nseq = 0u64;
    for len in 1..=maxlen {
        let total = (ALPHA.len() as u64).pow(len as u32);
        for code in 0..total {
            let mut seq = vec![];
            let mut c = code;
            for _ in 0..len {
                seq.push((c % ALPHA.len() as u64) as usize);
                c /= ALPHA.len() as u64;
            }
            if seq[0] != 0 && len > 2 && code % 7 != 0 {
                continue; // streams not starting with IHDR are all alike: sample them
            }
            nseq += 1;
            if let Some(rule) = automaton(&seq) {
                let bytes = build_seq(&seq);
                let name: Vec<&str> = seq.iter().map(|&k| ALPHA[k]).collect();
                o.mark(&format!("seq {} {}", name.join(","), hex(&bytes)));
                let s = summarize(&bytes, &[0], Opts::default(), 0);
                o.direct_checks += 1;
                let any_err = s.has_error();
                if s.any_panic() || !any_err {
                    o.violation(viol("sequence-violating-ordering-rule-accepted", vec![("sequence", jstr(&name.join(","))), ("rule", jstr(rule)),
                        ("bytes", jstr(&hex(&bytes))), ("result", jstr(&s.pixels_text()))]));
                }
                if code % 23 == 0 {
                    let r = run_l0(&[bytes.clone()], Opts::default(), None);
                    o.case(&format!("l0 {} {} 0 {}", Opts::default().bits(), 67108864u64, hex(&bytes)), &strip_d(&r.text), &format!("seq-{}", rule), true);
                }
            }
        }
    }
    o.dist.insert("sequences.enumerated".into(), nseq);
    o.mark("done");
    o.finish();
}

pub fn replay(case: &str) -> String {
    crate::c04::replay(case)
}
