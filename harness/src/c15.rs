//! C15: Adam7 pass geometry and the public row-expansion helper.
use crate::pngbuild::*;
use crate::refimpl::*;
use crate::util::*;
use png::verif_hooks::adam7 as hk;

fn viol(kind: &str, detail: Vec<(&str, String)>) -> String {
    let mut kv = vec![("kind", jstr(kind)), ("class", jstr(kind))];
    kv.extend(detail);
    jobj(&kv)
}

fn rows_str(v: &[(u8, u32, u32)]) -> String {
    if v.is_empty() {
        return "-".into();
    }
    v.iter().map(|(p, l, w)| format!("{}:{}:{}", p, l, w)).collect::<Vec<_>>().join(",")
}

fn rows_case(o: &mut Out, w: u32, h: u32, to_model: bool) {
    let got = guarded(|| hk::passes(w, h));
    let want = adam7_rows_ref(w, h);
    o.direct_checks += 1;
    let res = match &got {
        Ok(v) => rows_str(v),
        Err(m) => format!("PANIC {}", m),
    };
    let case = format!("a7rows {} {}", w, h);
    if res != rows_str(&want) {
        o.violation(viol("adam7-rows-differ-from-specification", vec![("case", jstr(&case)), ("impl", jstr(&res)), ("spec", jstr(&rows_str(&want)))]));
    }
    if to_model {
        o.case(&case, &res, &format!("r{}x{}", w % 8, h % 8), w > 1 || h > 1);
    }
    o.count("a7rows");
}

fn dims_case(o: &mut Out, w: u32, h: u32, p: u8, to_model: bool) {
    let got = guarded(|| hk::pass_size(w, h, p));
    let (rw, rh) = adam7_pass_size(w as u64, h as u64, p as usize);
    o.direct_checks += 1;
    let res = match &got {
        Ok((a, b)) => format!("{} {}", a, b),
        Err(m) => format!("PANIC {}", m),
    };
    let case = format!("a7dims {} {} {}", w, h, p);
    if res != format!("{} {}", rw, rh) {
        o.violation(viol("adam7-pass-size-differs-from-specification", vec![("case", jstr(&case)), ("impl", jstr(&res)), ("spec", jstr(&format!("{} {}", rw, rh)))]));
    }
    if to_model {
        o.case(&case, &res, &format!("d{}-{}-{}", p, 64 - w.leading_zeros(), w % 8), true);
    }
}

/// pack pixel values (each < 2^bits, or `bits/8` bytes big-endian in `vals`) into a row
fn pack(vals: &[u64], bits: usize) -> Vec<u8> {
    let n = (vals.len() * bits + 7) / 8;
    let mut out = vec![0u8; n];
    for (i, v) in vals.iter().enumerate() {
        for j in 0..bits {
            let bit = (v >> (bits - 1 - j)) & 1;
            let q = i * bits + j;
            if bit == 1 {
                out[q / 8] |= 1 << (7 - q % 8);
            }
        }
    }
    out
}

fn expand_image_case(o: &mut Out, rng: &mut Rng, w: u32, h: u32, bits: usize, extra: usize, model_rows: usize) {
    let min_stride = (w as usize * bits + 7) / 8;
    let stride = min_stride + extra;
    let len = stride * h as usize + rng.below(3) as usize;
    // dirty destination
    let fill = *rng.pick(&[0x00u8, 0xFF, 0xAA, 0x55]);
    let mut dest: Vec<u8> = (0..len).map(|_| if rng.chance(1, 2) { fill } else { rng.byte() }).collect();
    let orig = dest.clone();
    let src: Vec<Vec<u64>> = (0..h)
        .map(|_| (0..w).map(|_| if bits == 64 { rng.next() } else { rng.next() & ((1u64 << bits) - 1) }).collect())
        .collect();
    let mut rows = adam7_rows_ref(w, h);
    // any order: shuffle
    for i in (1..rows.len()).rev() {
        let j = rng.below(i as u64 + 1) as usize;
        rows.swap(i, j);
    }
    let mut emitted = 0;
    for (p, l, lw) in rows.iter().cloned() {
        let (xs, ys, dx, dy) = ADAM7[p as usize - 1];
        let y = ys + l * dy;
        let vals: Vec<u64> = (0..lw).map(|i| src[y as usize][(xs + i * dx) as usize]).collect();
        let mut row = pack(&vals, bits);
        // interlaced rows handed out by the decoder may be followed by unused bytes
        if rng.chance(1, 3) {
            row.push(rng.byte());
        }
        let before = dest.clone();
        let r = guarded(|| {
            let info = png::Adam7Info::new(p, l, lw);
            png::expand_interlaced_row(&mut dest, stride, &row, &info, bits as u8)
        });
        let res = match r {
            Ok(()) => hex(&dest),
            Err(m) => format!("PANIC {}", m),
        };
        if emitted < model_rows {
            emitted += 1;
            o.case(
                &format!("expand {} {} {} {} {} {} {}", hex(&before), stride, p, l, lw, bits, hex(&row)),
                &res,
                &format!("e{}-{}-{}-{}", bits, p, lw.min(9), extra),
                true,
            );
        }
        if res.starts_with("PANIC") {
            o.violation(viol("expand-panicked", vec![("w", w.to_string()), ("h", h.to_string()), ("bits", bits.to_string()), ("panic", jstr(&res))]));
            return;
        }
    }
    // expected: orig with every pixel field replaced
    let mut want = orig.clone();
    for y in 0..h as usize {
        for x in 0..w as usize {
            for j in 0..bits {
                let q = y * stride * 8 + x * bits + j;
                let bit = (src[y][x] >> (bits - 1 - j)) & 1;
                if bit == 1 {
                    want[q / 8] |= 1 << (7 - q % 8);
                } else {
                    want[q / 8] &= !(1 << (7 - q % 8));
                }
            }
        }
    }
    o.direct_checks += 1;
    o.count(&format!("expand.bits{}", bits));
    o.distinct(&format!("E{}x{}-{}-{}", w, h, bits, extra));
    if dest != want {
        o.violation(viol(
            "expand-result-not-the-specified-image",
            vec![
                ("w", w.to_string()), ("h", h.to_string()), ("bits", bits.to_string()), ("stride", stride.to_string()),
                ("fill", fill.to_string()), ("dest_before", jstr(&hex(&orig))), ("impl", jstr(&hex(&dest))), ("spec", jstr(&hex(&want))),
            ],
        ));
    }
}


/// Public-API formulation: an interlaced PNG built by the harness, decoded row by row; the reported
/// (pass, line, width) must be the specification's rows, and re-assembling them with the public helper into a
/// dirty buffer must give the image.
fn api_case(o: &mut Out, rng: &mut Rng, w: u32, h: u32, color: u8, depth: u8) {
    let s = ImageSpec { w, h, color, depth, interlaced: true };
    let rows = random_rows(&s, w, h, rng);
    let filters: Vec<u8> = (0..7).map(|_| rng.below(5) as u8).collect();
    let ck = rng.below(7);
    let (file, _) = simple_png(&s, &rows, &filters, ck, 1 + rng.below(3) as usize, rng);
    let bits = samples(color) * depth as usize;
    let stride = s.row_bytes(w) + *rng.pick(&[0usize, 0, 2]);
    let fill = *rng.pick(&[0x00u8, 0xFF, 0x5A]);
    let want_rows = adam7_rows_ref(w, h);
    let r = guarded(|| -> Result<(Vec<String>, Vec<u8>), String> {
        let mut dec = png::Decoder::new(std::io::Cursor::new(&file));
        dec.set_transformations(png::Transformations::IDENTITY);
        let mut rd = dec.read_info().map_err(|e| format!("read_info: {}", e))?;
        let mut dest = vec![fill; stride * h as usize];
        let mut infos = vec![];
        loop {
            match rd.next_interlaced_row() {
                Ok(Some(row)) => {
                    let info = match row.interlace() {
                        png::InterlaceInfo::Adam7(i) => *i,
                        _ => return Err("non-adam7 info on interlaced image".into()),
                    };
                    infos.push(format!("{:?}", info));
                    png::expand_interlaced_row(&mut dest, stride, row.data(), &info, bits as u8);
                }
                Ok(None) => break,
                Err(e) => return Err(format!("row: {}", e)),
            }
        }
        Ok((infos, dest))
    });
    o.direct_checks += 1;
    o.count(&format!("api.c{}d{}", color, depth));
    o.distinct(&format!("A{}x{}-{}-{}", w, h, color, depth));
    let want_infos: Vec<String> = want_rows.iter().map(|(p, l, lw)| format!("{:?}", png::Adam7Info::new(*p, *l, *lw))).collect();
    let mut want = vec![fill; stride * h as usize];
    for y in 0..h as usize {
        for q in 0..(w as usize * bits) {
            let bit = (rows[y][q / 8] >> (7 - q % 8)) & 1;
            let d = y * stride * 8 + q;
            if bit == 1 { want[d / 8] |= 1 << (7 - d % 8); } else { want[d / 8] &= !(1 << (7 - d % 8)); }
        }
    }
    let fail = match &r {
        Ok(Ok((infos, dest))) => {
            if *infos != want_infos { Some(("reported-interlaced-rows-differ-from-specification", infos.join(";"))) }
            else if *dest != want { Some(("reassembled-interlaced-image-differs", hex(dest))) } else { None }
        }
        Ok(Err(e)) => Some(("valid-interlaced-png-rejected", e.clone())),
        Err(m) => Some(("panic-decoding-interlaced-png", m.clone())),
    };
    if let Some((kind, got)) = fail {
        o.violation(viol(kind, vec![("w", w.to_string()), ("h", h.to_string()), ("color", color.to_string()), ("depth", depth.to_string()),
            ("stride", stride.to_string()), ("file", jstr(&hex(&file))), ("impl", jstr(&got)), ("spec_rows", jstr(&want_infos.join(";"))), ("spec_image", jstr(&hex(&want)))]));
    }
}

/// interlaced APNG: the rows reported for a sub-frame are the specification's rows for the FRAME's own width and height (not the canvas's), and
/// re-assembling them with the public helper gives the frame (every pixel once, the rest of the destination untouched)
fn api_subframe_case(o: &mut Out, rng: &mut Rng, cw: u32, ch: u32, fw: u32, fh: u32, fx: u32, fy: u32) {
    let b = crate::gen::apng_with_rect(rng, cw, ch, fw, fh, fx, fy, true);
    let bits = samples(b.spec.color) * b.spec.depth as usize;
    let fill = *rng.pick(&[0x00u8, 0xFF, 0x5A]);
    let extra = *rng.pick(&[0usize, 0, 3]);
    let r = guarded(|| -> Result<Vec<(Vec<String>, Vec<u8>, usize)>, String> {
        let mut dec = png::Decoder::new(std::io::Cursor::new(&b.bytes));
        dec.set_transformations(png::Transformations::IDENTITY);
        let mut rd = dec.read_info().map_err(|e| format!("read_info: {}", e))?;
        let mut out = vec![];
        for (k, f) in b.frames.iter().enumerate() {
            if k > 0 { rd.next_frame_info().map_err(|e| format!("next_frame_info: {}", e))?; }
            let stride = (f.w as usize * bits + 7) / 8 + extra;
            let mut dest = vec![fill; stride * f.h as usize];
            let mut infos = vec![];
            while let Some(row) = rd.next_interlaced_row().map_err(|e| format!("row of frame {}: {}", k, e))? {
                let info = match row.interlace() { png::InterlaceInfo::Adam7(i) => *i, _ => return Err("non-adam7 info on interlaced image".into()) };
                infos.push(format!("{:?}", info));
                png::expand_interlaced_row(&mut dest, stride, row.data(), &info, bits as u8);
            }
            out.push((infos, dest, stride));
        }
        Ok(out)
    });
    o.direct_checks += 1;
    o.count("api.apng-subframes");
    o.distinct(&format!("S{}x{}-{}x{}", cw, ch, fw, fh));
    let mut fail: Option<(&str, String)> = None;
    match &r {
        Err(m) => fail = Some(("panic-decoding-interlaced-png", m.clone())),
        Ok(Err(e)) => fail = Some(("valid-interlaced-png-rejected", e.clone())),
        Ok(Ok(frames)) => {
            for (k, ((infos, dest, stride), f)) in frames.iter().zip(b.frames.iter()).enumerate() {
                let want_infos: Vec<String> = adam7_rows_ref(f.w, f.h).iter().map(|(p, l, lw)| format!("{:?}", png::Adam7Info::new(*p, *l, *lw))).collect();
                if *infos != want_infos { fail = Some(("reported-interlaced-rows-differ-from-specification", format!("frame {} ({}x{} on a {}x{} canvas): {} ; specification: {}", k, f.w, f.h, cw, ch, infos.join(";"), want_infos.join(";")))); break; }
                let line = (f.w as usize * bits + 7) / 8;
                let mut want = vec![fill; stride * f.h as usize];
                for y in 0..f.h as usize {
                    for q in 0..(f.w as usize * bits) {
                        let bit = (f.pixels[y * line + q / 8] >> (7 - q % 8)) & 1;
                        let d = y * stride * 8 + q;
                        if bit == 1 { want[d / 8] |= 1 << (7 - d % 8); } else { want[d / 8] &= !(1 << (7 - d % 8)); }
                    }
                }
                if *dest != want { fail = Some(("reassembled-interlaced-image-differs", format!("frame {}: {} ; specification: {}", k, hex(dest), hex(&want)))); break; }
            }
        }
    }
    if let Some((kind, got)) = fail {
        o.violation(viol(kind, vec![("canvas", jstr(&format!("{}x{}", cw, ch))), ("subframe", jstr(&format!("{}x{}+{}+{}", fw, fh, fx, fy))), ("file", jstr(&hex(&b.bytes))), ("impl", jstr(&got))]));
    }
}

pub fn run(a: &Args) {
    let mut o = Out::new(&a.out);
    let mut rng = Rng::new(a.seed);
    let thorough = a.tier == "thorough";
    // (1) row sequences: exhaustive small sizes
    let n = if thorough { 64 } else { 24 };
    for w in 1..=n {
        for h in 1..=n {
            rows_case(&mut o, w, h, w <= 17 && h <= 17);
        }
    }
    for _ in 0..(if thorough { 400 } else { 40 }) {
        let (w, h) = (rng.range(1, 300) as u32, rng.range(1, 40) as u32);
        rows_case(&mut o, w, h, true);
        rows_case(&mut o, h, w, true);
    }
    // (2) pass sizes: dense small range + every power-of-two neighbourhood up to 2^32-1 + random
    let dense = if thorough { 1 << 20 } else { 4096 };
    for w in 1..=dense as u32 {
        for p in 1..=7u8 {
            dims_case(&mut o, w, w, p, w <= 40);
        }
    }
    let mut specials: Vec<u32> = vec![];
    for k in 3..=32u32 {
        let base: u64 = 1u64 << k;
        for d in -9i64..=9 {
            let v = base as i64 + d;
            if v >= 1 && v <= u32::MAX as i64 {
                specials.push(v as u32);
            }
        }
    }
    for &w in &specials {
        for p in 1..=7u8 {
            let h = *rng.pick(&specials);
            dims_case(&mut o, w, h, p, true);
        }
    }
    for _ in 0..(if thorough { 200000 } else { 3000 }) {
        let (w, h) = ((rng.next() as u32).max(1), (rng.next() as u32).max(1));
        let p = rng.range(1, 7) as u8;
        dims_case(&mut o, w, h, p, rng.chance(1, 10));
    }
    if thorough {
        // the f64 assumption closed on the implementation: every width and height through the compiled init_pass
        let threads = 16u64;
        let bad = std::sync::Mutex::new(Vec::<(u32, u8)>::new());
        std::thread::scope(|s| {
            for t in 0..threads {
                let bad = &bad;
                s.spawn(move || {
                    let lo = (t * (1u64 << 32)) / threads;
                    let hi = ((t + 1) * (1u64 << 32)) / threads;
                    for w in lo.max(1)..hi {
                        for p in 1..=7u8 {
                            let (a, b) = hk::pass_size(w as u32, w as u32, p);
                            let (ra, rb) = adam7_pass_size(w, w, p as usize);
                            if (a as u64, b as u64) != (ra, rb) {
                                let mut g = bad.lock().unwrap();
                                if g.len() < 4 {
                                    g.push((w as u32, p));
                                }
                            }
                        }
                    }
                });
            }
        });
        o.direct_checks += 7 * ((1u64 << 32) - 1);
        o.count("a7dims.full-u32-sweep");
        for (w, p) in bad.into_inner().unwrap() {
            dims_case(&mut o, w, w, p, true);
        }
    }
    // (3) expansion into dirty buffers, all rows in random order
    let m = if thorough { 20 } else { 9 };
    for w in 1..=m {
        for h in 1..=m {
            for &bits in &[1usize, 2, 4, 8, 16, 24, 32, 48, 64] {
                if !thorough && (w + h + bits as u32) % 3 != (a.seed % 3) as u32 && w > 4 && h > 4 {
                    continue;
                }
                let extra = *rng.pick(&[0usize, 0, 1, 3]);
                let model_rows = if w <= 5 && h <= 5 { 2 } else { 0 };
                expand_image_case(&mut o, &mut rng, w, h, bits, extra, model_rows);
            }
        }
    }
    // (4) through the public decoding API
    let kinds: [(u8, u8); 15] = [(0, 1), (0, 2), (0, 4), (0, 8), (0, 16), (2, 8), (2, 16), (3, 1), (3, 2), (3, 4), (3, 8), (4, 8), (4, 16), (6, 8), (6, 16)];
    let m = if thorough { 24 } else { 11 };
    for w in 1..=m {
        for h in 1..=m {
            let n = if thorough { 5 } else { 1 };
            for _ in 0..n {
                let (c, d) = *rng.pick(&kinds);
                api_case(&mut o, &mut rng, w, h, c, d);
            }
        }
    }
    for _ in 0..(if thorough { 300 } else { 30 }) {
        let (c, d) = *rng.pick(&kinds);
        let (w, h) = (rng.range(1, 130) as u32, rng.range(1, 40) as u32);
        api_case(&mut o, &mut rng, w, h, c, d);
    }
    // (5) interlaced APNG sub-frames of every size inside small canvases, and random ones inside larger canvases
    let (mw, mh) = if thorough { (9u32, 9u32) } else { (6, 5) };
    for fw in 1..=mw {
        for fh in 1..=mh {
            let (fx, fy) = (rng.range(0, (mw - fw) as u64) as u32, rng.range(0, (mh - fh) as u64) as u32);
            api_subframe_case(&mut o, &mut rng, mw, mh, fw, fh, fx, fy);
        }
    }
    for _ in 0..(if thorough { 300 } else { 30 }) {
        let (cw, ch) = (rng.range(2, 40) as u32, rng.range(2, 24) as u32);
        let (fw, fh) = (rng.range(1, cw as u64) as u32, rng.range(1, ch as u64) as u32);
        let (fx, fy) = (rng.range(0, (cw - fw) as u64) as u32, rng.range(0, (ch - fh) as u64) as u32);
        api_subframe_case(&mut o, &mut rng, cw, ch, fw, fh, fx, fy);
    }
    o.finish();
}

pub fn replay(case: &str) -> String {
    let t: Vec<&str> = case.split_whitespace().collect();
    match t[0] {
        "a7rows" => match guarded(|| hk::passes(t[1].parse().unwrap(), t[2].parse().unwrap())) {
            Ok(v) => rows_str(&v),
            Err(m) => format!("PANIC {}", m),
        },
        "a7dims" => match guarded(|| hk::pass_size(t[1].parse().unwrap(), t[2].parse().unwrap(), t[3].parse().unwrap())) {
            Ok((a, b)) => format!("{} {}", a, b),
            Err(m) => format!("PANIC {}", m),
        },
        "expand" => {
            let mut dest = unhex(t[1]);
            let row = unhex(t[7]);
            match guarded(|| {
                let info = png::Adam7Info::new(t[3].parse().unwrap(), t[4].parse().unwrap(), t[5].parse().unwrap());
                png::expand_interlaced_row(&mut dest, t[2].parse().unwrap(), &row, &info, t[6].parse().unwrap())
            }) {
                Ok(()) => hex(&dest),
                Err(m) => format!("PANIC {}", m),
            }
        }
        _ => "unknown-case".into(),
    }
}
