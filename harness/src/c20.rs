//! C20: text payload coding is exact and decompression of text is bounded on request.
use crate::alloc;
use crate::pngbuild::*;
use crate::readerrun::*;
use crate::streamrun::*;
use crate::util::*;
use png::text_metadata::{ITXtChunk, ZTXtChunk};

fn viol(kind: &str, detail: Vec<(&str, String)>) -> String {
    let mut kv = vec![("kind", jstr(kind)), ("class", jstr(kind))];
    kv.extend(detail);
    jobj(&kv)
}

fn tiny_png(extra: Vec<Chunk>) -> Vec<u8> {
    let mut chunks = vec![ihdr(1, 1, 8, 0, 0)];
    chunks.extend(extra);
    chunks.push(Chunk::new(b"IDAT", zlib_stored(&[0, 7], 2)));
    chunks.push(Chunk::new(b"IEND", vec![]));
    assemble(&chunks)
}

fn info_of(file: &[u8]) -> Result<png::Info<'static>, String> {
    let mut rd = open_reader(file, &[0], Opts::default(), 0, None)??;
    rd.finish().map_err(|e| res_err(&e))?;
    Ok(rd.info().clone())
}

fn cps(s: &str) -> Vec<u32> {
    s.chars().map(|c| c as u32).collect()
}

/// decode direction: tEXt/zTXt payload bytes -> String code points
fn latin1_decode_case(o: &mut Out, bytes: &[u8], compressed: bool) {
    let mut d = b"key\0".to_vec();
    if compressed {
        d.push(0);
        d.extend(zlib_flate2(bytes, 6));
    } else {
        d.extend_from_slice(bytes);
    }
    let file = tiny_png(vec![Chunk::new(if compressed { b"zTXt" } else { b"tEXt" }, d)]);
    o.direct_checks += 1;
    let got: Result<Vec<u32>, String> = info_of(&file).and_then(|i| {
        if compressed {
            i.compressed_latin1_text.first().ok_or("no zTXt".to_string()).and_then(|t| t.get_text().map(|s| cps(&s)).map_err(|e| res_err(&e)))
        } else {
            i.uncompressed_latin1_text.first().map(|t| cps(&t.text)).ok_or("no tEXt".to_string())
        }
    });
    let want: Vec<u32> = bytes.iter().map(|b| *b as u32).collect();
    if bytes.len() <= 64 {
        let r = match &got { Ok(v) => v.iter().map(|c| c.to_string()).collect::<Vec<_>>().join(","), Err(e) => format!("ERR {}", e) };
        o.case(&format!("latin1dec {}", hex(bytes)), &r, &format!("dec-{}-{}", bytes.len().min(3), bytes.iter().any(|b| *b >= 0x80)), true);
    }
    if got.as_ref().ok() != Some(&want) {
        o.violation(viol("latin1-text-not-decoded-code-point-for-code-point", vec![("chunk", jstr(if compressed { "zTXt" } else { "tEXt" })), ("payload", jstr(&hex(bytes))),
            ("got", jstr(&format!("{:?}", got).chars().take(300).collect::<String>())), ("expected_code_points", jstr(&format!("{:?}", want).chars().take(300).collect::<String>()))]));
    }
}

/// encode direction: String -> tEXt payload via the Encoder
fn latin1_encode_case(o: &mut Out, text: &str) {
    let mut out = vec![];
    let r = guarded(|| {
        let mut e = png::Encoder::new(&mut out, 1, 1);
        e.set_color(png::ColorType::Grayscale);
        e.add_text_chunk("key".to_string(), text.to_string()).map_err(|e| format!("{:?}", e))?;
        let mut w = e.write_header().map_err(|e| format!("{:?}", e))?;
        w.write_image_data(&[7]).map_err(|e| format!("{:?}", e))?;
        w.finish().map_err(|e| format!("{:?}", e))
    });
    o.direct_checks += 1;
    let representable = text.chars().all(|c| (c as u32) < 256);
    let payload: Option<Vec<u8>> = parse(&out).and_then(|cs| cs.iter().find(|c| &c.ty == b"tEXt").map(|c| c.data[4..].to_vec()));
    if text.chars().count() <= 64 && !text.is_empty() {
        let res = match (&r, &payload) { (Ok(Ok(())), Some(p)) => format!("OK {}", if p.is_empty() { "-".to_string() } else { hex(p) }), (Ok(Err(_)), _) => "REFUSED".to_string(), _ => "PANIC".to_string() };
        o.case(&format!("latin1enc {}", cps(text).iter().map(|c| c.to_string()).collect::<Vec<_>>().join(",")), &res, &format!("enc-{}-{}", text.chars().count().min(3), representable), true);
    }
    let ok = match &r {
        Ok(Ok(())) => representable && payload == Some(text.chars().map(|c| c as u32 as u8).collect()),
        Ok(Err(_)) => !representable,
        Err(_) => false,
    };
    if !ok {
        o.violation(viol("latin1-text-not-encoded-code-point-for-code-point-or-not-refused", vec![("text_code_points", jstr(&format!("{:?}", cps(text)).chars().take(300).collect::<String>())),
            ("representable", representable.to_string()), ("result", jstr(&format!("{:?}", r).chars().take(200).collect::<String>())), ("payload", jstr(&payload.map(|p| hex(&p)).unwrap_or_default()))]));
    }
}

fn ztxt_from_payload(payload: &[u8]) -> Option<ZTXtChunk> {
    let mut d = b"key\0\0".to_vec();
    d.extend_from_slice(payload);
    info_of(&tiny_png(vec![Chunk::new(b"zTXt", d)])).ok().and_then(|i| i.compressed_latin1_text.first().cloned())
}
fn itxt_from_payload(payload: &[u8]) -> Option<ITXtChunk> {
    let mut d = b"key\0\x01\0en\0k\0".to_vec();
    d.extend_from_slice(payload);
    info_of(&tiny_png(vec![Chunk::new(b"iTXt", d)])).ok().and_then(|i| i.utf8_text.first().cloned())
}

/// the object-level state machine on a chunk built from `text`
fn state_machine_case(o: &mut Out, text: &str, rng: &mut Rng) {
    o.direct_checks += 1;
    let latin = text.chars().all(|c| (c as u32) < 256);
    let r = guarded(|| -> Result<(), String> {
        // zTXt (Latin-1 only)
        if latin {
            let mut t = ZTXtChunk::new("k", text);
            let t0 = t.clone();
            t.compress_text().map_err(|e| format!("compress: {:?}", e))?;
            let c1 = t.clone();
            t.compress_text().map_err(|e| format!("compress twice: {:?}", e))?;
            if t != c1 { return Err("compress is not idempotent".into()); }
            if t.get_text().map_err(|e| format!("get_text on compressed: {:?}", e))? != text { return Err("get_text of compressed differs".into()); }
            // a limit below the length must fail and leave the chunk usable
            let n = text.chars().count();
            if n > 0 {
                let small = rng.below(n as u64) as usize;
                let before = t.clone();
                if t.decompress_text_with_limit(small).is_ok() { return Err(format!("decompress_text_with_limit({}) succeeded for {} bytes", small, n)); }
                if t != before { return Err("failed decompression changed the chunk".into()); }
                if t.get_text().map_err(|_| "chunk unusable after failed decompression".to_string())? != text { return Err("text differs after failed decompression".into()); }
            }
            t.decompress_text_with_limit(n).map_err(|e| format!("decompress with exact limit {}: {:?}", n, e))?;
            if t != t0 { return Err("decompress(compress(t)) != t".into()); }
            let d1 = t.clone();
            t.decompress_text().map_err(|e| format!("decompress twice: {:?}", e))?;
            if t != d1 { return Err("decompress is not idempotent".into()); }
        }
        // iTXt (any Unicode)
        let mut t = ITXtChunk::new("k", text);
        let t0 = t.clone();
        t.compress_text().map_err(|e| format!("iTXt compress: {:?}", e))?;
        let c1 = t.clone();
        t.compress_text().map_err(|e| format!("iTXt compress twice: {:?}", e))?;
        if t != c1 { return Err("iTXt compress is not idempotent".into()); }
        if t.get_text().map_err(|e| format!("iTXt get_text: {:?}", e))? != text { return Err("iTXt get_text of compressed differs".into()); }
        let n = text.len();
        if n > 0 {
            let before = t.clone();
            if t.decompress_text_with_limit(n - 1).is_ok() { return Err("iTXt decompress below the length succeeded".into()); }
            if t != before { return Err("iTXt failed decompression changed the chunk".into()); }
        }
        t.decompress_text_with_limit(n).map_err(|e| format!("iTXt decompress with exact limit: {:?}", e))?;
        // compressed flag stays set by compress_text; compare the text
        if t.get_text().map_err(|e| format!("{:?}", e))? != t0.get_text().unwrap() { return Err("iTXt decompress(compress(t)) text differs".into()); }
        Ok(())
    });
    let res = match r { Ok(Ok(())) => None, Ok(Err(e)) => Some(e), Err(m) => Some(format!("PANIC {}", m)) };
    if let Some(e) = res {
        o.violation(viol("text-chunk-compress-decompress-law-broken", vec![("text_code_points", jstr(&format!("{:?}", cps(text)).chars().take(300).collect::<String>())), ("why", jstr(&e))]));
    }
}

/// arbitrary bytes as compressed payloads (bombs, corruptions) x limits: never more than the limit is materialised
fn bounded_case(o: &mut Out, name: &str, payload: &[u8], true_len: Option<usize>, limit: usize) {
    o.mark(&format!("bounded {} limit={} payload-len={}", name, limit, payload.len()));
    o.direct_checks += 1;
    for itxt in [false, true] {
        let made = if itxt { itxt_from_payload(payload).map(|t| (None, Some(t))) } else { ztxt_from_payload(payload).map(|t| (Some(t), None)) };
        let (mut z, mut i) = match made { Some(x) => x, None => { o.count("bounded.chunk-not-decoded"); continue; } };
        let before = (z.clone(), i.clone());
        let m = alloc::mark();
        let r = guarded(|| match (&mut z, &mut i) {
            (Some(t), _) => t.decompress_text_with_limit(limit).map_err(|e| res_err(&e)),
            (_, Some(t)) => t.decompress_text_with_limit(limit).map_err(|e| res_err(&e)),
            _ => unreachable!(),
        });
        let peak = alloc::peak_above(m);
        if !itxt && payload.len() <= 6000 && true_len.map_or(true, |n| n <= 50000) {
            let res = match (&r, &z) {
                (Ok(Ok(())), Some(t)) => format!("OK {}", t.get_text().map(|s| cps(&s).iter().map(|c| c.to_string()).collect::<Vec<_>>().join(",")).unwrap_or_default()),
                (Ok(Err(_)), _) => "ERR".to_string(),
                _ => "PANIC".to_string(),
            };
            o.case(&format!("textinf {} {}", hex(payload), limit), &res, &format!("inf-{}-{}", name, limit), true);
        }
        o.count(&format!("bounded.{}", if itxt { "iTXt" } else { "zTXt" }));
        let detail = |why: String| vec![("payload", jstr(name)), ("chunk", jstr(if itxt { "iTXt" } else { "zTXt" })), ("limit", limit.to_string()), ("true_length", jstr(&format!("{:?}", true_len))),
            ("peak_heap_growth", peak.to_string()), ("result", jstr(&format!("{:?}", r))), ("why", jstr(&why))];
        // allocation pattern of the bounded inflater: at most the limit (+ the String conversion of at most the same size) + a constant
        let bound = 3 * limit + 70_000;
        if peak > bound {
            o.violation(viol("bounded-text-decompression-materialises-more-than-the-limit", detail(format!("peak {} > 3*limit + 70000 = {}", peak, bound))));
            continue;
        }
        match (&r, true_len) {
            (Err(m), _) => o.violation(viol("panic-in-text-decompression", detail(m.clone()))),
            (Ok(Ok(())), Some(n)) if n > limit => o.violation(viol("text-longer-than-the-limit-was-decompressed", detail(String::new()))),
            (Ok(Err(e)), Some(n)) if n <= limit && !itxt => o.violation(viol("text-within-the-limit-was-refused", detail(e.clone()))),
            (Ok(Ok(())), _) => {
                let len = match (&z, &i) { (Some(t), _) => t.get_text().map(|s| s.chars().count()).unwrap_or(0), (_, Some(t)) => t.get_text().map(|s| s.len()).unwrap_or(0), _ => 0 };
                if len > limit {
                    o.violation(viol("text-longer-than-the-limit-was-decompressed", detail(format!("materialised {} > limit", len))));
                }
            }
            (Ok(Err(_)), _) if (z.clone(), i.clone()) != before => {
                o.violation(viol("failed-decompression-changed-the-chunk", detail(String::new())));
            }
            (Ok(Err(_)), _) => {
                // the chunk must still be usable: a generous limit gives the true result
                if let (Some(n), Some(t)) = (true_len, z.as_mut()) {
                    if n <= 4_000_000 && t.decompress_text_with_limit(n).is_err() {
                        o.violation(viol("chunk-unusable-after-refused-decompression", detail(String::new())));
                    }
                }
            }
        }
    }
}

/// decompress_text() without an explicit limit is documented to stop at DECOMPRESSION_LIMIT (2 MiB)
fn default_limit_case(o: &mut Out, name: &str, payload: &[u8], true_len: Option<usize>) {
    const DEFAULT: usize = 2097152;
    o.mark(&format!("default-limit {} payload-len={}", name, payload.len()));
    for itxt in [false, true] {
        let made = if itxt { itxt_from_payload(payload).map(|t| (None, Some(t))) } else { ztxt_from_payload(payload).map(|t| (Some(t), None)) };
        let (mut z, mut i) = match made { Some(x) => x, None => continue };
        o.direct_checks += 1;
        let before = (z.clone(), i.clone());
        let m = alloc::mark();
        let r = guarded(|| match (&mut z, &mut i) {
            (Some(t), _) => t.decompress_text().map_err(|e| res_err(&e)),
            (_, Some(t)) => t.decompress_text().map_err(|e| res_err(&e)),
            _ => unreachable!(),
        });
        let peak = alloc::peak_above(m);
        o.count(&format!("default-limit.{}", if itxt { "iTXt" } else { "zTXt" }));
        let detail = |why: String| vec![("payload", jstr(name)), ("chunk", jstr(if itxt { "iTXt" } else { "zTXt" })), ("limit", jstr("default (decompress_text)")), ("true_length", jstr(&format!("{:?}", true_len))),
            ("peak_heap_growth", peak.to_string()), ("result", jstr(&format!("{:?}", r))), ("why", jstr(&why))];
        if peak > 3 * DEFAULT + 70_000 {
            o.violation(viol("bounded-text-decompression-materialises-more-than-the-limit", detail(format!("peak {} > 3 * 2 MiB + 70000", peak))));
            continue;
        }
        match (&r, true_len) {
            (Err(m), _) => o.violation(viol("panic-in-text-decompression", detail(m.clone()))),
            (Ok(Ok(())), Some(n)) if n > DEFAULT => o.violation(viol("text-longer-than-the-limit-was-decompressed", detail(String::new()))),
            (Ok(Err(e)), Some(n)) if n <= DEFAULT && !itxt => o.violation(viol("text-within-the-limit-was-refused", detail(e.clone()))),
            (Ok(Err(_)), _) => {
                if (z.clone(), i.clone()) != before { o.violation(viol("failed-decompression-changed-the-chunk", detail(String::new()))); }
            }
            _ => {}
        }
    }
}

/// compressed (and uncompressed) international text read FROM A FILE: the payload runs to the end of the chunk, whatever bytes it contains -
/// stored deflate blocks and short texts are full of zero bytes - and decompresses to exactly the text that was compressed
fn itxt_from_file_cases(o: &mut Out, rng: &mut Rng, thorough: bool) {
    use crate::pngbuild::*;
    for k in 0..(if thorough { 600 } else { 60 }) {
        let text: String = match k % 5 {
            0 => String::new(),
            1 => "a".repeat(rng.range(1, 40) as usize),
            2 => (0..rng.range(1, 60)).map(|_| char::from_u32(*rng.pick(&[0x41u32, 0xe9, 0x20ac, 0x1f600, 0x7a, 0x20])).unwrap()).collect(),
            3 => "x\u{0}y\u{0}\u{0}z".to_string(),
            _ => (0..rng.range(50, 400)).map(|i| char::from(b'a' + (i % 26) as u8)).collect(),
        };
        let level = *rng.pick(&[0u32, 1, 6, 9]);
        for compressed in [true, false] {
            if !compressed && k % 5 != 3 && k % 5 != 2 { continue; }
            let mut payload = b"Title\0".to_vec();
            payload.push(compressed as u8);
            payload.push(0);
            payload.extend_from_slice(b"en\0");
            payload.extend_from_slice("Titel".as_bytes());
            payload.push(0);
            if compressed { payload.extend_from_slice(&zlib_flate2(text.as_bytes(), level)); } else { payload.extend_from_slice(text.as_bytes()); }
            let file = assemble(&[ihdr(1, 1, 8, 0, 0), Chunk::new(b"iTXt", payload), Chunk::new(b"IDAT", zlib_stored(&[0, 7], 2)), Chunk::new(b"IEND", vec![])]);
            o.mark(&format!("itxt from file compressed={} level={} {}", compressed, level, hex(&file)));
            o.direct_checks += 1;
            o.count("itxt-from-file");
            let r = guarded(|| -> Result<String, String> {
                let rd = png::Decoder::new(std::io::Cursor::new(file.clone())).read_info().map_err(|e| format!("read_info: {}", e))?;
                let t = rd.info().utf8_text.first().ok_or_else(|| "no iTXt reported".to_string())?.clone();
                if t.keyword != "Title" || t.language_tag != "en" || t.translated_keyword != "Titel" || t.compressed != compressed { return Err(format!("fields differ: {:?}", (t.keyword.clone(), t.language_tag.clone(), t.translated_keyword.clone(), t.compressed))); }
                t.get_text().map_err(|e| format!("get_text: {:?}", e))
            });
            match r {
                Ok(Ok(got)) if got == text => {}
                Ok(Ok(got)) => o.violation(viol("compressed-text-does-not-decompress-to-the-text", vec![("expected", jstr(&text.chars().take(200).collect::<String>())), ("got", jstr(&got.chars().take(200).collect::<String>())), ("compressed", compressed.to_string()), ("file", jstr(&hex(&file)))])),
                Ok(Err(e)) => o.violation(viol("compressed-text-does-not-decompress-to-the-text", vec![("why", jstr(&e)), ("compressed", compressed.to_string()), ("level", level.to_string()), ("file", jstr(&hex(&file)))])),
                Err(m) => o.violation(viol("text-call-panicked", vec![("why", jstr(&m)), ("file", jstr(&hex(&file)))])),
            }
        }
    }
}

pub fn run(a: &Args) {
    let mut o = Out::new(&a.out);
    let mut rng = Rng::new(a.seed);
    let thorough = a.tier == "thorough";
    // (1) every byte value, and every PAIR of byte values (so that no multi-byte reinterpretation can hide), both directions
    for b in 1..=255u8 {
        latin1_decode_case(&mut o, &[b], false);
        latin1_decode_case(&mut o, &[b, b], true);
        latin1_encode_case(&mut o, &char::from(b).to_string());
    }
    o.count("latin1.single-code-points");
    for hi in 1..=255u8 {
        for lo in 1..=255u8 {
            if !thorough && (hi < 0x80 && lo < 0x80) && (hi as u32 * 31 + lo as u32) % 11 != 0 {
                continue; // ASCII pairs are sampled in the quick tier; every pair with a high byte is run
            }
            latin1_decode_case(&mut o, &[hi, lo], false);
            if hi >= 0xC0 && lo >= 0x80 && lo < 0xC0 {
                latin1_decode_case(&mut o, &[b'a', hi, lo, b'z'], true);
                let s: String = [char::from(hi), char::from(lo)].iter().collect();
                latin1_encode_case(&mut o, &s);
            }
        }
    }
    o.count("latin1.pairs");
    o.distinct("latin1-pairs-255x255");
    // code points above Latin-1 must be refused, everywhere in the string
    for cp in [0x100u32, 0x17F, 0x3A9, 0x20AC, 0xFFFD, 0x1F600] {
        let c = char::from_u32(cp).unwrap();
        for s in [c.to_string(), format!("abc{}", c), format!("{}\u{e9}xyz", c)] {
            latin1_encode_case(&mut o, &s);
        }
    }
    // (2) random strings: Latin-1 and Unicode, up to several hundred KiB in the thorough tier
    let sizes: Vec<usize> = if thorough { vec![0, 1, 2, 17, 300, 5000, 70000, 400000] } else { vec![0, 1, 2, 17, 300, 5000, 70000] };
    for &n in &sizes {
        for rep in 0..(if n > 10000 { 1 } else { 4 }) {
            let latin: String = (0..n).map(|_| char::from(rng.range(1, 255) as u8)).collect();
            latin1_decode_case(&mut o, &latin.chars().map(|c| c as u32 as u8).collect::<Vec<u8>>(), rep % 2 == 0);
            state_machine_case(&mut o, &latin, &mut rng);
            let uni = String::from_utf8(crate::gen::utf8_text(&mut rng, n.min(100000))).unwrap();
            state_machine_case(&mut o, &uni, &mut rng);
            o.distinct(&format!("str-{}-{}", n, rep));
        }
    }
    // iTXt accepted only if valid UTF-8 and returned unchanged
    for _ in 0..(if thorough { 3000 } else { 300 }) {
        let n = rng.range(1, 12) as usize;
        let raw: Vec<u8> = (0..n).map(|_| *rng.pick(&[0x41u8, 0xC3, 0xA9, 0xE2, 0x82, 0xAC, 0xF0, 0x9F, 0x98, 0x80, 0xFF, 0xC0, 0xED, 0xA0, 0x80, 0x7F])).collect();
        let mut d = b"key\0\0\0\0\0".to_vec();
        d.extend_from_slice(&raw);
        let file = tiny_png(vec![Chunk::new(b"iTXt", d)]);
        o.direct_checks += 1;
        let valid = std::str::from_utf8(&raw).is_ok() && !raw.contains(&0);
        let got = info_of(&file).ok().and_then(|i| i.utf8_text.first().and_then(|t| t.get_text().ok()));
        let ok = match (&got, valid) { (Some(s), true) => s.as_bytes() == &raw[..], (None, false) => true, (None, true) => false, (Some(_), false) => false };
        o.count(if valid { "itxt.valid-utf8" } else { "itxt.invalid-utf8" });
        if !ok {
            o.violation(viol("itxt-utf8-acceptance-wrong", vec![("payload", jstr(&hex(&raw))), ("valid_utf8", valid.to_string()), ("got", jstr(&format!("{:?}", got)))]));
        }
    }
    // (3) bounded decompression: bombs and corrupt payloads x limits
    let limits = [0usize, 1, 1023, 1024, 1025, 32767, 32768, 32769, 2 * 1024 * 1024];
    let mut payloads: Vec<(String, Vec<u8>, Option<usize>)> = vec![];
    for n in [0usize, 1, 1024, 40000, 3_000_000, if thorough { 200_000_000 } else { 30_000_000 }] {
        payloads.push((format!("zeros{}", n), zlib_flate2(&vec![b'a'; n], 9), Some(n)));
    }
    for _ in 0..6 {
        let n = rng.range(10, 5000) as usize;
        let mut z = zlib_flate2(&crate::gen::latin1_text(&mut rng, n), 6);
        let k = rng.below(z.len() as u64) as usize;
        z[k] ^= 1 << rng.below(8);
        payloads.push((format!("corrupt{}", n), z, None));
        payloads.push((format!("garbage{}", n), (0..n).map(|_| rng.byte()).collect(), None));
    }
    // inflates fine, but to bytes that are not UTF-8 (an iTXt must refuse them and stay as it was; as zTXt they are ordinary Latin-1)
    for raw in [vec![0xffu8, 0xfe, 0x41], vec![0x41, 0xc3], vec![0xed, 0xa0, 0x80, 0x42]] {
        let n = raw.len();
        payloads.push((format!("non-utf8-{}", hex(&raw)), zlib_flate2(&raw, 6), Some(n)));
    }
    for (name, p, tl) in &payloads {
        for &l in &limits {
            bounded_case(&mut o, name, p, *tl, l);
        }
        default_limit_case(&mut o, name, p, *tl);
    }
    o.mark("done");
    itxt_from_file_cases(&mut o, &mut rng, thorough);
    o.finish();
}

pub fn replay(_case: &str) -> String {
    "unknown-case".into()
}
