//! C14: scanline filters.  Implementation (through the verif-hooks) vs. the specification (refimpl) directly,
//! and the same cases written out for the extracted Coq model.
use crate::refimpl::*;
use crate::util::*;
use png::verif_hooks::filter as hk;

const BPPS: [usize; 6] = [1, 2, 3, 4, 6, 8];

fn viol(kind: &str, detail: Vec<(&str, String)>) -> String {
    let mut kv = vec![("kind", jstr(kind))];
    kv.extend(detail);
    jobj(&kv)
}

pub fn run_unfilter_case(o: &mut Out, ft: u8, bpp: usize, prev: &[u8], cur: &[u8]) {
    let mut got = cur.to_vec();
    let r = guarded(|| hk::unfilter(ft, bpp, prev, &mut got));
    let res = match &r {
        Ok(true) => hex(&got),
        Ok(false) => "badfilter".to_string(),
        Err(m) => format!("PANIC {}", m),
    };
    let case = format!("unfilter {} {} {} {}", ft, bpp, hex(prev), hex(cur));
    o.case(&case, &res, &format!("u{}-{}-{}-{}", ft, bpp, cur.len(), prev.is_empty()), cur.len() > bpp);
    o.count(&format!("unfilter.ft{}.bpp{}.{}", ft, bpp, if prev.is_empty() { "first" } else { "later" }));
    // direct: implementation = specification
    o.direct_checks += 1;
    let want = if ft > 4 { "badfilter".to_string() } else { hex(&recon_ref(ft, bpp, prev, cur)) };
    if res != want {
        o.violation(viol(
            "unfilter-differs-from-specification",
            vec![("case", jstr(&case)), ("impl", jstr(&res)), ("spec", jstr(&want))],
        ));
    }
}

pub fn run_filter_case(o: &mut Out, method: u8, bpp: usize, prev: &[u8], cur: &[u8]) {
    let mut out = vec![0u8; cur.len()];
    let r = guarded(|| hk::filter(method, bpp, prev, cur, &mut out));
    let case = format!("filter {} {} {} {}", method, bpp, hex(prev), hex(cur));
    let res = match &r {
        Ok(rf) => format!("{} {}", rf, hex(&out)),
        Err(m) => format!("PANIC {}", m),
    };
    o.case(&case, &res, &format!("f{}-{}-{}", method, bpp, cur.len()), cur.len() > bpp);
    o.count(&format!("filter.m{}.bpp{}", method, bpp));
    o.direct_checks += 1;
    match r {
        Ok(rf) => {
            if rf > 4 {
                o.violation(viol("illegal-filter-type", vec![("case", jstr(&case)), ("rf", rf.to_string())]));
                return;
            }
            o.count(&format!("filter.chosen{}", rf));
            // specification's filtering of that type
            let want = filt_ref(rf, bpp, prev, cur);
            if method != 5 && rf != method {
                o.violation(viol("fixed-filter-not-used", vec![("case", jstr(&case)), ("rf", rf.to_string())]));
            }
            if out != want {
                o.violation(viol(
                    "filter-differs-from-specification",
                    vec![("case", jstr(&case)), ("impl", jstr(&hex(&out))), ("spec", jstr(&hex(&want)))],
                ));
            }
            // decoder's reconstruction (later-row form and, for a zero previous row, first-row form)
            let mut back = out.clone();
            let _ = guarded(|| hk::unfilter(rf, bpp, prev, &mut back));
            if back != cur {
                o.violation(viol(
                    "filter-then-unfilter-not-identity",
                    vec![("case", jstr(&case)), ("rf", rf.to_string()), ("back", jstr(&hex(&back)))],
                ));
            }
            if prev.iter().all(|&x| x == 0) {
                let mut back = out.clone();
                let _ = guarded(|| hk::unfilter(rf, bpp, &[], &mut back));
                if back != cur {
                    o.violation(viol(
                        "filter-then-first-row-unfilter-not-identity",
                        vec![("case", jstr(&case)), ("rf", rf.to_string()), ("back", jstr(&hex(&back)))],
                    ));
                }
            }
        }
        Err(m) => o.violation(viol("filter-panicked", vec![("case", jstr(&case)), ("panic", jstr(&m))])),
    }
}

fn paeth_sweep(o: &mut Out) {
    // all 2^24 triples through every compiled predictor
    for kind in [0u8, 1, 3] {
        let mut bad: Option<(u8, u8, u8, u8)> = None;
        for a in 0..=255u8 {
            for b in 0..=255u8 {
                for c in 0..=255u8 {
                    let g = hk::paeth(kind, a, b, c);
                    if g != paeth_ref(a, b, c) && bad.is_none() {
                        bad = Some((a, b, c, g));
                    }
                }
            }
        }
        o.direct_checks += 1 << 24;
        o.count(&format!("paeth.sweep.kind{}", kind));
        if let Some((a, b, c, g)) = bad {
            o.violation(viol(
                "paeth-differs-from-specification",
                vec![
                    ("case", jstr(&format!("paeth {} {} {} {}", kind, a, b, c))),
                    ("impl", g.to_string()),
                    ("spec", paeth_ref(a, b, c).to_string()),
                ],
            ));
        }
    }
}

pub fn run(a: &Args) {
    let mut o = Out::new(&a.out);
    let mut rng = Rng::new(a.seed);
    let scale = a.scale;
    paeth_sweep(&mut o);
    // sampled predictor triples for the model comparison (boundaries + ties + random)
    let edge = [0u8, 1, 2, 127, 128, 129, 254, 255];
    for kind in [0u8, 1, 3] {
        for &x in &edge {
            for &y in &edge {
                for &z in &edge {
                    let g = hk::paeth(kind, x, y, z);
                    o.case(&format!("paeth {} {} {} {}", kind, x, y, z), &g.to_string(), &format!("p{}{}{}{}", kind, x, y, z), true);
                }
            }
        }
        for _ in 0..400 * scale {
            let (x, y, z) = (rng.byte(), rng.byte(), rng.byte());
            // bias towards ties: c close to a or b
            let z = if rng.chance(1, 2) { z } else { *rng.pick(&[x, y, x.wrapping_add(1), y.wrapping_sub(1)]) };
            let g = hk::paeth(kind, x, y, z);
            o.case(&format!("paeth {} {} {} {}", kind, x, y, z), &g.to_string(), &format!("p{}{}{}{}", kind, x, y, z), true);
        }
    }
    // unfilter: every (ft, bpp, first/later) cell, lengths crossing 1..3 pixels and longer rows
    for round in 0..(6 * scale) {
        for ft in 0..=4u8 {
            for &bpp in &BPPS {
                for first in [false, true] {
                    let px = match round % 6 {
                        0 => 1,
                        1 => 2,
                        2 => 3,
                        3 => rng.range(4, 12),
                        4 => rng.range(13, 40),
                        _ => rng.range(1, 70),
                    } as usize;
                    let len = px * bpp;
                    let cur = rng.bytes(len);
                    let prev = if first { vec![] } else { rng.bytes(len) };
                    run_unfilter_case(&mut o, ft, bpp, &prev, &cur);
                }
            }
        }
    }
    // first rows (no previous row) far longer than any block size an implementation might cut them into
    for ft in 0..=4u8 {
        for &bpp in &BPPS {
            let len = (*rng.pick(&[24_576usize, 24_580, 26_000, 30_000, 49_200]) / bpp) * bpp;
            let cur = rng.bytes(len);
            run_unfilter_case(&mut o, ft, bpp, &[], &cur);
        }
    }
    // illegal filter bytes are refused
    for ft in [5u8, 6, 7, 64, 128, 255] {
        run_unfilter_case(&mut o, ft, 1, &[], &[1, 2, 3]);
    }
    // filter: 6 methods x 6 bpp, lengths around the 32-byte chunk (+bpp) and its remainders
    for round in 0..(8 * scale) {
        for method in 0..=5u8 {
            for &bpp in &BPPS {
                let px = match round % 8 {
                    0 => 1,
                    1 => 2,
                    2 => (32 / bpp) as u64 + 1,
                    3 => (32 / bpp) as u64 + 2,
                    4 => (64 / bpp) as u64 + 1,
                    5 => rng.range(1, 12),
                    6 => rng.range(12, 80),
                    _ => rng.range(1, 140),
                } as usize;
                let len = px * bpp;
                let cur = rng.bytes(len);
                let prev = if rng.chance(1, 3) { vec![0u8; len] } else { rng.bytes(len) };
                run_filter_case(&mut o, method, bpp, &prev, &cur);
            }
        }
    }
    // long rows (beyond any prefix a heuristic might sample), smooth two-dimensional content so that each of the five types wins somewhere
    for round in 0..(2 * scale) {
        for method in 0..=5u8 {
            for &bpp in &BPPS {
                let len = (*rng.pick(&[1024usize, 1025, 1100, 2048, 3000, 5000]) / bpp).max(2) * bpp;
                let kind = (round as usize + method as usize) % 4;
                let prev: Vec<u8> = (0..len).map(|i| match kind { 0 => (i / bpp) as u8, 1 => ((i / bpp) * 3) as u8, 2 => ((i / (40 * bpp)) * 17) as u8, _ => rng.byte() }).collect();
                let cur: Vec<u8> = (0..len).map(|i| match kind { 0 => (i / bpp) as u8 ^ 1, 1 => prev[i].wrapping_add((i / bpp) as u8), 2 => prev[i].wrapping_add(if i >= bpp { prev[i - bpp] } else { 0 }) , _ => prev[i].wrapping_add((i % 7) as u8) }).collect();
                run_filter_case(&mut o, method, bpp, &prev, &cur);
            }
        }
    }
    // rows in the context of a whole image: the row ABOVE that the decoder hands to the kernels must be the reconstructed previous scanline,
    // also when deflate blocks / IDAT chunks / reads end exactly on scanline boundaries and far more than 64 KiB of rows have gone by
    for (w, h, c, d, rpb) in [(1023u32, 100u32, 0u8, 8u8, 1usize), (700, 130, 2, 8, 1), (255, 300, 0, 8, 4), (2047, 48, 0, 16, 2)] {
        for ff in [Some(2u8), Some(3), Some(4), None] {
            let im = crate::c01::aligned_image(&mut rng, w, h, c, d, rpb, ff);
            o.count("rows-in-whole-images");
            crate::c01::check_image(&mut o, &im, &[0], false);
            crate::c01::check_image(&mut o, &im, &[rng.range(1, 3000) as usize], false);
        }
    }
    // the FIRST row of a frame is reconstructed without a row above - also the first row of frame k+1 when frame k's data sequence was flushed
    // while its last rows were still buffered (frames a little above 32 / 64 / 128 KiB of compressible data; frame f uses filter (f+1) % 5
    // on every row, so Up / Average / Paeth first rows follow a frame whose last row is not zero)
    for (w, producer) in [(15u32, 1u8), (63, 0), (255, 2)] {
        for h in crate::gen::heights_just_above_buffer_sizes(w as usize + 1, 2).into_iter().take(if a.tier == "thorough" { 9 } else { 5 }) {
            let b = crate::gen::held_back_tail_file(w, h, 4, producer, &[], &[]);
            o.count("first-rows-after-an-early-flushed-frame");
            crate::c09::check_apng(&mut o, &b, &mut rng);
        }
    }
    // filtering in the context of the encoder: the filter setting changed between rows through the stream writer - each row must be filtered
    // against the row above it and the stream must reconstruct to the rows given
    crate::c03::filter_switch_cases(&mut o, &mut rng, a.tier == "thorough");
    // ... and through the whole-image call, every filter setting, rows with arbitrary padding bits
    crate::c03::whole_image_filter_cases(&mut o, &mut rng, a.tier == "thorough");
    if a.tier == "thorough" {
        // exhaustive rows of <= 3 pixels over a 4-value alphabet for bpp 1 and 2
        let alpha = [0u8, 1, 128, 255];
        for &bpp in &[1usize, 2] {
            for px in 1..=3usize {
                let len = px * bpp;
                let total = 4usize.pow((2 * len) as u32);
                if total > 70000 {
                    continue;
                }
                for code in 0..total {
                    let mut c = code;
                    let mut cur = vec![0u8; len];
                    let mut prev = vec![0u8; len];
                    for i in 0..len {
                        cur[i] = alpha[c % 4];
                        c /= 4;
                    }
                    for i in 0..len {
                        prev[i] = alpha[c % 4];
                        c /= 4;
                    }
                    for ft in 1..=4u8 {
                        // direct only (model comparison would be 10^6 lines): impl vs spec
                        let mut got = cur.clone();
                        hk::unfilter(ft, bpp, &prev, &mut got);
                        o.direct_checks += 1;
                        if got != recon_ref(ft, bpp, &prev, &cur) {
                            o.violation(viol(
                                "unfilter-differs-from-specification",
                                vec![("case", jstr(&format!("unfilter {} {} {} {}", ft, bpp, hex(&prev), hex(&cur))))],
                            ));
                        }
                    }
                }
                o.count(&format!("exhaustive.bpp{}.px{}", bpp, px));
            }
        }
    }
    o.finish();
}

pub fn replay(case: &str) -> String {
    let t: Vec<&str> = case.split_whitespace().collect();
    match t[0] {
        "paeth" => {
            let k: u8 = t[1].parse().unwrap();
            hk::paeth(k, t[2].parse().unwrap(), t[3].parse().unwrap(), t[4].parse().unwrap()).to_string()
        }
        "unfilter" => {
            let mut cur = unhex(t[4]);
            match guarded(|| hk::unfilter(t[1].parse().unwrap(), t[2].parse().unwrap(), &unhex(t[3]), &mut cur)) {
                Ok(true) => hex(&cur),
                Ok(false) => "badfilter".into(),
                Err(m) => format!("PANIC {}", m),
            }
        }
        "filter" => {
            let cur = unhex(t[4]);
            let mut out = vec![0u8; cur.len()];
            match guarded(|| hk::filter(t[1].parse().unwrap(), t[2].parse().unwrap(), &unhex(t[3]), &cur, &mut out)) {
                Ok(rf) => format!("{} {}", rf, hex(&out)),
                Err(m) => format!("PANIC {}", m),
            }
        }
        _ => "unknown-case".into(),
    }
}
