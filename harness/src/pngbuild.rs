//! Reference PNG/APNG writer used to generate inputs (independent of the crate's encoder).
use crate::refimpl::*;
use crate::util::*;
use std::io::Write;

#[derive(Clone, Debug)]
pub struct Chunk {
    pub ty: [u8; 4],
    pub data: Vec<u8>,
    /// None = correct CRC
    pub crc: Option<u32>,
}

impl Chunk {
    pub fn new(ty: &[u8; 4], data: Vec<u8>) -> Chunk {
        Chunk { ty: *ty, data, crc: None }
    }
    pub fn crc_value(&self) -> u32 {
        let mut h = crc32fast::Hasher::new();
        h.update(&self.ty);
        h.update(&self.data);
        h.finalize()
    }
    pub fn bytes(&self) -> Vec<u8> {
        let mut v = Vec::with_capacity(self.data.len() + 12);
        v.extend_from_slice(&(self.data.len() as u32).to_be_bytes());
        v.extend_from_slice(&self.ty);
        v.extend_from_slice(&self.data);
        v.extend_from_slice(&self.crc.unwrap_or_else(|| self.crc_value()).to_be_bytes());
        v
    }
}

pub const SIG: [u8; 8] = [137, 80, 78, 71, 13, 10, 26, 10];

pub fn assemble(chunks: &[Chunk]) -> Vec<u8> {
    let mut v = SIG.to_vec();
    for c in chunks {
        v.extend_from_slice(&c.bytes());
    }
    v
}

/// parse a PNG byte string into chunks (lenient: stops at the first malformed chunk)
pub fn parse(bytes: &[u8]) -> Option<Vec<Chunk>> {
    if bytes.len() < 8 || bytes[..8] != SIG {
        return None;
    }
    let mut i = 8;
    let mut v = vec![];
    while i + 12 <= bytes.len() {
        let len = u32::from_be_bytes([bytes[i], bytes[i + 1], bytes[i + 2], bytes[i + 3]]) as usize;
        if i + 12 + len > bytes.len() {
            return None;
        }
        let ty = [bytes[i + 4], bytes[i + 5], bytes[i + 6], bytes[i + 7]];
        let data = bytes[i + 8..i + 8 + len].to_vec();
        let crc = u32::from_be_bytes([bytes[i + 8 + len], bytes[i + 9 + len], bytes[i + 10 + len], bytes[i + 11 + len]]);
        let mut c = Chunk { ty, data, crc: None };
        if c.crc_value() != crc {
            c.crc = Some(crc);
        }
        v.push(c);
        i += 12 + len;
    }
    if i != bytes.len() {
        return None;
    }
    Some(v)
}

pub fn ihdr(w: u32, h: u32, depth: u8, color: u8, interlace: u8) -> Chunk {
    let mut d = vec![];
    d.extend_from_slice(&w.to_be_bytes());
    d.extend_from_slice(&h.to_be_bytes());
    d.extend_from_slice(&[depth, color, 0, 0, interlace]);
    Chunk::new(b"IHDR", d)
}

pub fn adler32(data: &[u8]) -> u32 {
    let (mut a, mut b) = (1u32, 0u32);
    for &x in data {
        a = (a + x as u32) % 65521;
        b = (b + a) % 65521;
    }
    (b << 16) | a
}

/// zlib stream of stored blocks of the given maximum size (>= 1)
pub fn zlib_stored(data: &[u8], block: usize) -> Vec<u8> {
    let mut v = vec![0x78, 0x01];
    let blocks: Vec<&[u8]> = if data.is_empty() { vec![&data[..]] } else { data.chunks(block.min(65535).max(1)).collect() };
    for (i, b) in blocks.iter().enumerate() {
        v.push(if i + 1 == blocks.len() { 1 } else { 0 });
        v.extend_from_slice(&(b.len() as u16).to_le_bytes());
        v.extend_from_slice(&(!(b.len() as u16)).to_le_bytes());
        v.extend_from_slice(b);
    }
    v.extend_from_slice(&adler32(data).to_be_bytes());
    v
}

pub fn zlib_flate2(data: &[u8], level: u32) -> Vec<u8> {
    let mut e = flate2::write::ZlibEncoder::new(Vec::new(), flate2::Compression::new(level));
    e.write_all(data).unwrap();
    e.finish().unwrap()
}

pub fn zlib_fdeflate(data: &[u8]) -> Vec<u8> {
    fdeflate::compress_to_vec(data)
}

/// one of several deflate producers, chosen by `kind`
pub fn compress(data: &[u8], kind: u64, rng: &mut Rng) -> Vec<u8> {
    match kind % 7 {
        0 => zlib_stored(data, 65535),
        1 => zlib_stored(data, rng.range(1, 40) as usize),
        2 => zlib_flate2(data, 1),
        3 => zlib_flate2(data, 6),
        4 => zlib_flate2(data, 9),
        5 => zlib_fdeflate(data),
        _ => zlib_flate2(data, rng.range(0, 9) as u32),
    }
}

#[derive(Clone, Debug)]
pub struct ImageSpec {
    pub w: u32,
    pub h: u32,
    pub color: u8,
    pub depth: u8,
    pub interlaced: bool,
}

impl ImageSpec {
    pub fn row_bytes(&self, w: u32) -> usize {
        row_bytes(self.color, self.depth, w as u64) as usize
    }
    pub fn bpp(&self) -> usize {
        bpp_filter(self.color, self.depth)
    }
}

/// random packed rows (h rows of row_bytes(w)); padding bits of the last byte are random too
pub fn random_rows(s: &ImageSpec, w: u32, h: u32, rng: &mut Rng) -> Vec<Vec<u8>> {
    let n = s.row_bytes(w);
    (0..h).map(|_| rng.bytes(n)).collect()
}

/// extract pixel bit-field [x] of a packed row into `out` at pixel position `ox`
fn copy_pixel(src: &[u8], x: usize, out: &mut [u8], ox: usize, bits: usize) {
    for j in 0..bits {
        let q = x * bits + j;
        let bit = (src[q / 8] >> (7 - q % 8)) & 1;
        let o = ox * bits + j;
        if bit == 1 {
            out[o / 8] |= 1 << (7 - o % 8);
        } else {
            out[o / 8] &= !(1 << (7 - o % 8));
        }
    }
}

/// The filtered scanline stream of an image given as packed full-resolution rows (padding bits zero in passes).
/// `filters` supplies the filter type of each transmitted row (cycled).
pub fn filtered_stream(s: &ImageSpec, w: u32, h: u32, rows: &[Vec<u8>], filters: &[u8]) -> Vec<u8> {
    let bits = samples(s.color) * s.depth as usize;
    let bpp = s.bpp();
    let mut out = vec![];
    let mut fi = 0usize;
    let mut emit = |prior: &[u8], raw: &[u8], out: &mut Vec<u8>| {
        let ft = filters[fi % filters.len()];
        fi += 1;
        out.push(ft);
        out.extend_from_slice(&filt_ref(ft, bpp, prior, raw));
    };
    if !s.interlaced {
        let mut prior: Vec<u8> = vec![];
        for r in rows.iter().take(h as usize) {
            emit(&prior, r, &mut out);
            prior = r.clone();
        }
    } else {
        for p in 1..=7usize {
            let (pw, ph) = adam7_pass_size(w as u64, h as u64, p);
            if pw == 0 || ph == 0 {
                continue;
            }
            let (xs, ys, dx, dy) = ADAM7[p - 1];
            let mut prior: Vec<u8> = vec![];
            for l in 0..ph as usize {
                let y = ys as usize + l * dy as usize;
                let mut raw = vec![0u8; s.row_bytes(pw as u32)];
                for i in 0..pw as usize {
                    copy_pixel(&rows[y], xs as usize + i * dx as usize, &mut raw, i, bits);
                }
                emit(&prior, &raw, &mut out);
                prior = raw;
            }
        }
    }
    out
}

/// The specification's decoded image: rows with the padding bits of the last byte cleared only where the
/// decoder cannot know them (it copies whole bytes for non-interlaced images, so they are kept there).
pub fn expected_pixels(s: &ImageSpec, w: u32, h: u32, rows: &[Vec<u8>]) -> Vec<u8> {
    let mut v = vec![];
    for r in rows.iter().take(h as usize) {
        v.extend_from_slice(r);
    }
    if s.interlaced {
        // de-interlacing writes pixel bit-fields only: padding bits come from the (zeroed) destination
        let bits = samples(s.color) * s.depth as usize;
        let rb = s.row_bytes(w);
        let used = w as usize * bits;
        if used % 8 != 0 {
            for y in 0..h as usize {
                let last = y * rb + rb - 1;
                let keep = used % 8;
                v[last] &= 0xFFu8 << (8 - keep);
            }
        }
    }
    v
}

/// split `data` into `n` consecutive pieces (some possibly empty)
pub fn split_random(data: &[u8], n: usize, rng: &mut Rng, allow_empty: bool) -> Vec<Vec<u8>> {
    let mut cuts: Vec<usize> = (0..n.saturating_sub(1)).map(|_| rng.below(data.len() as u64 + 1) as usize).collect();
    cuts.sort();
    let mut v = vec![];
    let mut prev = 0;
    for c in cuts {
        if c > prev || allow_empty {
            v.push(data[prev..c].to_vec());
            prev = c;
        }
    }
    v.push(data[prev..].to_vec());
    v
}

pub fn palette_chunk(n: usize, rng: &mut Rng) -> Chunk {
    Chunk::new(b"PLTE", (0..3 * n).map(|_| rng.byte()).collect())
}

/// A complete simple PNG for `s` with the given rows; returns (file bytes, filtered stream)
pub fn simple_png(s: &ImageSpec, rows: &[Vec<u8>], filters: &[u8], ckind: u64, nsplit: usize, rng: &mut Rng) -> (Vec<u8>, Vec<u8>) {
    let stream = filtered_stream(s, s.w, s.h, rows, filters);
    let z = compress(&stream, ckind, rng);
    let mut chunks = vec![ihdr(s.w, s.h, s.depth, s.color, s.interlaced as u8)];
    if s.color == 3 {
        chunks.push(palette_chunk(1 << s.depth.min(8), rng));
    }
    for p in split_random(&z, nsplit, rng, true) {
        chunks.push(Chunk::new(b"IDAT", p));
    }
    chunks.push(Chunk::new(b"IEND", vec![]));
    (assemble(&chunks), stream)
}

pub fn fctl_chunk(seq: u32, w: u32, h: u32, x: u32, y: u32, dn: u16, dd: u16, dop: u8, bop: u8) -> Chunk {
    let mut d = vec![];
    d.extend_from_slice(&seq.to_be_bytes());
    d.extend_from_slice(&w.to_be_bytes());
    d.extend_from_slice(&h.to_be_bytes());
    d.extend_from_slice(&x.to_be_bytes());
    d.extend_from_slice(&y.to_be_bytes());
    d.extend_from_slice(&dn.to_be_bytes());
    d.extend_from_slice(&dd.to_be_bytes());
    d.push(dop);
    d.push(bop);
    Chunk::new(b"fcTL", d)
}

pub fn actl_chunk(frames: u32, plays: u32) -> Chunk {
    let mut d = frames.to_be_bytes().to_vec();
    d.extend_from_slice(&plays.to_be_bytes());
    Chunk::new(b"acTL", d)
}

pub fn fdat_chunk(seq: u32, data: &[u8]) -> Chunk {
    let mut d = seq.to_be_bytes().to_vec();
    d.extend_from_slice(data);
    Chunk::new(b"fdAT", d)
}
