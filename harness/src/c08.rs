//! C08: output transformations (EXPAND, STRIP_16, ALPHA) compute exactly the documented pixel conversion and the
//! advertised output type / line size / buffer size describe the bytes written.
//! Reference conversion written from the documentation (independent of the crate); images with palettes of every
//! length, tRNS shorter/equal/longer, colour keys that do / do not / nearly occur; all 8 flag subsets; frame and row paths.
use crate::pngbuild::*;
use crate::readerrun::*;
use crate::refimpl::*;
use crate::streamrun::*;
use crate::util::*;

fn viol(kind: &str, detail: Vec<(&str, String)>) -> String {
    let mut kv = vec![("kind", jstr(kind)), ("class", jstr(kind))];
    kv.extend(detail);
    jobj(&kv)
}

/// samples of pixel k of a packed row (each as u16)
fn pixel_samples(row: &[u8], color: u8, depth: u8, k: usize) -> Vec<u16> {
    let n = samples(color);
    (0..n)
        .map(|c| {
            let j = k * n + c;
            match depth {
                16 => u16::from_be_bytes([row[2 * j], row[2 * j + 1]]),
                8 => row[j] as u16,
                d => {
                    let bit = j * d as usize;
                    ((row[bit / 8] >> (8 - d as usize - bit % 8)) & ((1u16 << d) - 1) as u8) as u16
                }
            }
        })
        .collect()
}

pub struct TInfo<'a> {
    pub color: u8,
    pub depth: u8,
    pub plte: Option<&'a [u8]>,
    /// tRNS chunk payload as it is in the file
    pub trns: Option<&'a [u8]>,
}

/// (colour type, bit depth) of the output
pub fn out_type_ref(i: &TInfo, t: u32) -> (u8, u8) {
    let (strip, expand, alpha) = (t & 1 != 0, t & 6 != 0, t & 4 != 0);
    let add_alpha = expand && (i.trns.is_some() || alpha);
    let c = if expand {
        match i.color {
            3 => if add_alpha { 6 } else { 2 },
            0 => if add_alpha { 4 } else { 0 },
            2 => if add_alpha { 6 } else { 2 },
            c => c,
        }
    } else {
        i.color
    };
    let d = if i.depth == 16 && strip { 8 } else if i.depth < 8 && expand { 8 } else { i.depth };
    (c, d)
}

/// the documented conversion of one scanline of `width` pixels
pub fn convert_ref(i: &TInfo, t: u32, width: usize, row: &[u8]) -> Vec<u8> {
    let (strip, expand, alpha) = (t & 1 != 0, t & 6 != 0, t & 4 != 0);
    let add_alpha = expand && (i.trns.is_some() || alpha);
    let strip = strip && i.depth == 16;
    let changes = (i.color == 3 && expand) || (i.color == 0 && i.depth < 8 && expand) || ((i.color == 0 || i.color == 2) && add_alpha) || strip;
    if !changes {
        return row.to_vec();
    }
    let mut out = vec![];
    for k in 0..width {
        let px = pixel_samples(row, i.color, i.depth, k);
        if i.color == 3 && expand {
            let pal = i.plte.unwrap_or(&[]);
            let entries = (pal.len() / 3).min(256);
            let idx = px[0] as usize;
            if idx < entries {
                out.extend_from_slice(&pal[3 * idx..3 * idx + 3]);
            } else {
                out.extend_from_slice(&[0, 0, 0]);
            }
            if add_alpha {
                let tr = i.trns.unwrap_or(&[]);
                let a = if tr.len() <= entries && idx < tr.len() { tr[idx] } else { 255 };
                out.push(a);
            }
        } else if i.color == 0 && i.depth < 8 && expand {
            // bit replication
            let v = px[0] as u32;
            let mut r = 0u32;
            let mut sh = 0;
            while sh < 8 {
                r |= v << sh;
                sh += i.depth as u32;
            }
            out.push(r as u8);
            if add_alpha {
                let key = i.trns.map(|t| u16::from_be_bytes([t[0], t[1]]));
                // the key is a 16-bit field of which only the low `depth` bits are significant for low depths
                let is_key = key.map(|k| (k & 0xff) == px[0]).unwrap_or(false);
                out.push(if is_key { 0 } else { 255 });
            }
        } else {
            // 8/16-bit grey or RGB (possibly with alpha already), optional colour key, optional strip
            let is_key = if add_alpha && (i.color == 0 || i.color == 2) {
                match i.trns {
                    Some(tr) => px.iter().enumerate().all(|(c, &v)| {
                        let k = u16::from_be_bytes([tr[2 * c], tr[2 * c + 1]]);
                        if i.depth == 16 { k == v } else { (k & 0xff) == v }
                    }),
                    None => false,
                }
            } else {
                false
            };
            for &v in &px {
                if i.depth == 16 {
                    if strip {
                        out.push((v >> 8) as u8);
                    } else {
                        out.extend_from_slice(&v.to_be_bytes());
                    }
                } else {
                    out.push(v as u8);
                }
            }
            if add_alpha && (i.color == 0 || i.color == 2) {
                let a: u16 = if is_key { 0 } else { 0xffff };
                if i.depth == 16 && !strip {
                    out.extend_from_slice(&a.to_be_bytes());
                } else {
                    out.push(a as u8);
                }
            }
        }
    }
    out
}

pub struct TImage {
    pub name: String,
    pub file: Vec<u8>,
    pub spec: ImageSpec,
    pub plte: Option<Vec<u8>>,
    pub trns: Option<Vec<u8>>,
    pub rows: Vec<Vec<u8>>,
}

pub fn build(rng: &mut Rng, w: u32, h: u32, color: u8, depth: u8, interlaced: bool, plte_n: usize, trns_mode: u32) -> TImage {
    let s = ImageSpec { w, h, color, depth, interlaced };
    let plte: Option<Vec<u8>> = if color == 3 { Some((0..3 * plte_n).map(|_| rng.byte()).collect()) } else { None };
    // tRNS: 0 none, 1 shorter, 2 equal, 3 longer (indexed); 1.. present (grey/rgb)
    let trns: Option<Vec<u8>> = match (color, trns_mode) {
        (_, 0) | (4, _) | (6, _) => None,
        (3, m) => {
            let n = match m { 1 => rng.range(1, plte_n as u64) as usize, 2 => plte_n, 3 => plte_n + rng.range(1, 40) as usize, _ => (plte_n + 256).min(700) };
            Some((0..n).map(|_| *rng.pick(&[0u8, 255, 128, 1, 77])).collect())
        }
        (0, _) => Some(if depth == 16 { vec![rng.byte(), rng.byte()] } else { vec![if rng.chance(1, 3) { rng.byte() } else { 0 }, (rng.below(1 << depth.min(8))) as u8] }),
        _ => Some((0..3).flat_map(|_| if depth == 16 { vec![rng.byte(), rng.byte()] } else { vec![if rng.chance(1, 3) { rng.byte() } else { 0 }, rng.byte()] }).collect()),
    };
    // pixels: random; indices around the palette length; some pixels equal to / nearly equal to the colour key
    let rb = s.row_bytes(w);
    let mut rows: Vec<Vec<u8>> = (0..h).map(|_| rng.bytes(rb)).collect();
    if let (Some(tr), true) = (&trns, color == 0 || color == 2) {
        let bytes_pp = samples(color) * depth as usize / 8;
        for row in rows.iter_mut() {
            if depth >= 8 {
                for k in 0..w as usize {
                    let m = rng.below(6);
                    if m < 3 {
                        // the key itself, or the key with one low/high byte changed (near miss)
                        for c in 0..samples(color) {
                            if depth == 16 {
                                row[k * bytes_pp + 2 * c] = tr[2 * c];
                                row[k * bytes_pp + 2 * c + 1] = tr[2 * c + 1];
                            } else {
                                row[k * bytes_pp + c] = tr[2 * c + 1];
                            }
                        }
                        if m >= 1 {
                            let pos = k * bytes_pp + rng.below(bytes_pp as u64) as usize;
                            row[pos] ^= 1 << rng.below(8);
                        }
                    }
                }
            } else {
                // low-depth grey: make roughly a third of the bytes repeat the key value
                let v = tr[1] & ((1u16 << depth) - 1) as u8;
                let mut b = 0u8;
                for _ in 0..(8 / depth) {
                    b = (b << depth) | v;
                }
                for x in row.iter_mut() {
                    if rng.chance(1, 3) {
                        *x = b;
                    }
                }
            }
        }
    }
    if color == 3 && depth == 8 {
        for row in rows.iter_mut() {
            for x in row.iter_mut() {
                if rng.chance(1, 2) {
                    *x = (rng.below(plte_n as u64 + 3)).min(255) as u8;
                }
            }
        }
    }
    let nrows = if interlaced { adam7_rows_ref(w, h).len() } else { h as usize };
    let filters: Vec<u8> = (0..nrows.max(1)).map(|_| rng.below(5) as u8).collect();
    let stream = filtered_stream(&s, w, h, &rows, &filters);
    let ck = rng.below(7);
    let z = compress(&stream, ck, rng);
    let mut chunks = vec![ihdr(w, h, depth, color, interlaced as u8)];
    if let Some(p) = &plte {
        chunks.push(Chunk::new(b"PLTE", p.clone()));
    }
    if let Some(t) = &trns {
        chunks.push(Chunk::new(b"tRNS", t.clone()));
    }
    chunks.push(Chunk::new(b"IDAT", z));
    chunks.push(Chunk::new(b"IEND", vec![]));
    let name = format!("c{}d{}{}-{}x{}-p{}-t{}", color, depth, if interlaced { "i" } else { "n" }, w, h, plte_n, trns.as_ref().map(|t| t.len() as i64).unwrap_or(-1));
    TImage { name, file: assemble(&chunks), spec: s, plte, trns, rows }
}

fn expected_image(im: &TImage, t: u32) -> (String, Vec<u8>) {
    let s = &im.spec;
    let ti = TInfo { color: s.color, depth: s.depth, plte: im.plte.as_deref(), trns: im.trns.as_deref() };
    let (oc, od) = out_type_ref(&ti, t);
    let line = (s.w as usize * samples(oc) * od as usize + 7) / 8;
    let mut px = vec![];
    // identity pixels as the decoder leaves them (padding bits of interlaced rows come from the zeroed buffer)
    let ident = expected_pixels(s, s.w, s.h, &im.rows);
    let rb = s.row_bytes(s.w);
    for y in 0..s.h as usize {
        let mut r = convert_ref(&ti, t, s.w as usize, &ident[y * rb..(y + 1) * rb]);
        r.resize(line, 0);
        px.extend(r);
    }
    (format!("{}x{} {}:{} line={} n={}", s.w, s.h, oc, od, line, line * s.h as usize), px)
}

fn check(o: &mut Out, im: &TImage, t: u32, to_model: bool) {
    o.mark(&format!("transform t={} {} {}", t, im.name, hex(&im.file)));
    let (want_geo, want) = expected_image(im, t);
    // frame path
    let r = guarded(|| -> Result<(String, Vec<u8>), String> {
        let mut rd = open_reader(&im.file, &[0], Opts::default(), t, None)?.map_err(|e| e)?;
        let mut buf = vec![0u8; rd.output_buffer_size()];
        let advertised = rd.output_buffer_size();
        let oi = rd.next_frame(&mut buf).map_err(|e| res_err(&e))?;
        let geo = format!("{}x{} {}:{} line={} n={}", oi.width, oi.height, oi.color_type as u8, oi.bit_depth as u8, oi.line_size, oi.buffer_size());
        if advertised != oi.buffer_size() {
            return Err(format!("output_buffer_size {} != OutputInfo::buffer_size {}", advertised, oi.buffer_size()));
        }
        buf.truncate(oi.buffer_size());
        Ok((geo, buf))
    })
    .unwrap_or_else(|m| Err(format!("PANIC {}", m)));
    o.direct_checks += 1;
    o.count(&format!("flags.{}", t));
    o.distinct(&format!("{}-{}-{}-{}-{}-{}", im.spec.color, im.spec.depth, t, im.spec.interlaced, im.plte.as_ref().map(|p| p.len() / 3).unwrap_or(0).min(20), im.trns.as_ref().map(|p| p.len()).unwrap_or(0).min(20)));
    let report = |o: &mut Out, kind: &str, got: String| {
        o.violation(viol(kind, vec![("image", jstr(&im.name)), ("flags", jstr(&format!("{}{}{}", if t & 1 != 0 { "STRIP_16 " } else { "" }, if t & 2 != 0 { "EXPAND " } else { "" }, if t & 4 != 0 { "ALPHA" } else { "" }))),
            ("file", jstr(&hex(&im.file))), ("impl", jstr(&got)), ("spec", jstr(&format!("{} {}", want_geo, hex(&want))))]));
    };
    match &r {
        Err(e) => report(o, "transformed-decode-failed", e.clone()),
        Ok((geo, px)) => {
            if *geo != want_geo {
                report(o, "advertised-output-type-or-size-wrong", geo.clone());
            } else if *px != want {
                report(o, "transformed-pixels-differ-from-documented-conversion", format!("{} {}", geo, hex(px)));
            }
        }
    }
    // row path (non-interlaced: rows are the frame's rows; interlaced: re-assembled in c13)
    if !im.spec.interlaced {
        let r2 = guarded(|| -> Result<Vec<u8>, String> {
            let mut rd = open_reader(&im.file, &[0], Opts::default(), t, None)?.map_err(|e| e)?;
            let mut v = vec![];
            while let Some(row) = rd.next_row().map_err(|e| res_err(&e))? {
                v.extend_from_slice(row.data());
            }
            Ok(v)
        })
        .unwrap_or_else(|m| Err(format!("PANIC {}", m)));
        o.direct_checks += 1;
        match r2 {
            Ok(v) if v == want => {}
            Ok(v) => report(o, "row-path-pixels-differ-from-documented-conversion", hex(&v)),
            Err(e) => report(o, "row-path-failed", e),
        }
    }
    if to_model && im.spec.h == 1 && !im.spec.interlaced {
        if let Ok((_, px)) = &r {
            let opt = |o: &Option<Vec<u8>>| o.as_ref().map(|v| if v.is_empty() { "e".to_string() } else { hex(v) }).unwrap_or_else(|| "-".to_string());
            // the decoder stores the colour key normalised (low bytes for depth < 16): the model takes the stored form
            let stored = match (&im.trns, im.spec.color, im.spec.depth) {
                (Some(t), 0, d) if d < 16 => Some(vec![t[1]]),
                (Some(t), 2, d) if d < 16 => Some(vec![t[1], t[3], t[5]]),
                (t, _, _) => t.clone(),
            };
            let tflags = (t & 1) | ((t >> 1) & 1) << 4 | ((t >> 2) & 1) << 16;
            o.case(&format!("transform {} {} {} {} {} {} {}", im.spec.color, im.spec.depth, tflags, opt(&im.plte), opt(&stored), im.spec.w, hex(&im.rows[0])), &hex(px),
                &format!("{}-{}-{}", im.spec.color, im.spec.depth, t), true);
        }
    }
}

pub fn run(a: &Args) {
    let mut o = Out::new(&a.out);
    let mut rng = Rng::new(a.seed);
    let thorough = a.tier == "thorough";
    let reps = if thorough { 40 } else { 4 };
    for &(c, d) in COLOR_DEPTHS.iter() {
        for rep in 0..reps {
            for trns_mode in 0..4u32 {
                if trns_mode > 0 && (c == 4 || c == 6) {
                    continue;
                }
                let plte_n = if c == 3 { *rng.pick(&[1usize, 2, 3, 15, 16, 17, 100, 255, 256, 256]) } else { 0 };
                let il = rep % 3 == 2;
                let (w, h) = if rep % 2 == 0 { (rng.range(1, 20) as u32, 1) } else { (rng.range(1, 12) as u32, rng.range(1, 6) as u32) };
                let im = build(&mut rng, w, h, c, d, il, plte_n, trns_mode);
                for t in 0..8u32 {
                    check(&mut o, &im, t, rep % 2 == 0);
                }
            }
        }
    }
    // palettes of every length with tRNS shorter / equal / longer, one-row 8-bit images
    let step = if thorough { 1 } else { 9 };
    let mut n = 1usize;
    while n <= 256 {
        for trns_mode in 1..=4u32 {
            let im = build(&mut rng, 24, 1, 3, 8, false, n, trns_mode);
            for t in [2u32, 4, 6, 3] {
                check(&mut o, &im, t, n % 5 == 1);
            }
        }
        n += if n >= 250 { 1 } else { step };
    }
    o.mark("done");
    o.finish();
}

pub fn replay(_case: &str) -> String {
    "unknown-case".into()
}
