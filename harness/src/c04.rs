//! C04: the decoding result is independent of how the input bytes are delivered (low-level streaming decoder
//! and Reader over a piecewise BufRead).  Direct metamorphic check on the implementation + L0 model correspondence.
use crate::gen::*;
use crate::readerrun::*;
use crate::streamrun::*;
use crate::util::*;

fn viol(kind: &str, detail: Vec<(&str, String)>) -> String {
    let mut kv = vec![("kind", jstr(kind)), ("class", jstr(kind))];
    kv.extend(detail);
    jobj(&kv)
}

/// drop the delivery-dependent PartialChunk events (diagnostic only, DESIGN section 5)
pub fn strip_pc(text: &str) -> String {
    let (evs, rest) = text.split_once(" END=").unwrap_or((text, ""));
    let kept: Vec<&str> = evs.split(';').filter(|e| !e.starts_with("PC:") && *e != "D").collect();
    format!("{} END={}", kept.join(";"), rest)
}

/// drop the ImageData markers only (how much partial data precedes a failure may depend on delivery and on the inflater's look-ahead)
pub fn strip_d(text: &str) -> String {
    let (evs, rest) = text.split_once(" END=").unwrap_or((text, ""));
    let kept: Vec<&str> = evs.split(';').filter(|e| *e != "D").collect();
    format!("{} END={}", if kept.is_empty() { "-".to_string() } else { kept.join(";") }, rest)
}

/// strip the count of unconsumed bytes after IEND (depends on the piece that held IEND)
fn strip_leftover(text: &str) -> String {
    match text.find(" END=IEND:") {
        Some(i) => {
            let j = text[i + 10..].find(' ').map(|k| i + 10 + k).unwrap_or(text.len());
            format!("{} END=IEND{}", &text[..i], &text[j..])
        }
        None => text.to_string(),
    }
}

pub fn schedules(len: usize, rng: &mut Rng, n_random: usize, all_cuts: bool) -> Vec<Vec<usize>> {
    let mut v: Vec<Vec<usize>> = vec![vec![1], vec![2], vec![3], vec![4], vec![5], vec![7], vec![1, 3], vec![4, 1], vec![3, 4, 5], vec![8], vec![13], vec![4096]];
    if all_cuts {
        for c in 1..len {
            v.push(vec![c, 0]);
        }
    } else {
        for _ in 0..12 {
            v.push(vec![rng.range(1, len.max(2) as u64 - 1) as usize, 0]);
        }
    }
    for _ in 0..n_random {
        let k = rng.range(1, 6) as usize;
        v.push((0..k).map(|_| rng.range(1, 40) as usize).collect());
    }
    v
}

pub fn run(a: &Args) {
    let mut o = Out::new(&a.out);
    let mut rng = Rng::new(a.seed);
    let thorough = a.tier == "thorough";
    let mut files: Vec<(String, Vec<u8>)> = vec![];
    let g = GenOpts { maxw: 9, maxh: 7, anc: true, animated: None };
    for _ in 0..(if thorough { 400 } else { 60 }) {
        let b = valid_file(&mut rng, &g);
        files.push((b.name.clone(), b.bytes.clone()));
        for _ in 0..2 {
            let (l, m) = if rng.chance(2, 3) { mutate_structural(&b.bytes, &mut rng) } else { mutate_bytes(&b.bytes, &mut rng) };
            files.push((format!("{}~{}", b.name, l), m));
        }
    }
    for (n, b) in corpus_files(if thorough { 16384 } else { 1500 }, if thorough { 400 } else { 40 }, &mut rng) {
        files.push((n, b));
    }
    // chunk bodies larger than the 32 KiB chunk buffer under a small limit: where the limit is checked must not depend on the delivery
    let mut limited: Vec<(String, Vec<u8>, usize)> = vec![];
    for &n in &[32769usize, 50000, 100000] {
        use crate::pngbuild::*;
        let mut chunks = vec![ihdr(2, 2, 8, 0, 0), Chunk::new(if n % 2 == 1 { b"eXIf" } else { b"prVt" }, (0..n).map(|i| (i * 7) as u8).collect())];
        chunks.push(Chunk::new(b"IDAT", zlib_stored(&[0, 1, 2, 0, 3, 4], 3)));
        chunks.push(Chunk::new(b"tEXt", { let mut d = b"key\0".to_vec(); d.extend((0..n / 2).map(|i| 32 + (i % 90) as u8)); d }));
        chunks.push(Chunk::new(b"IEND", vec![]));
        for &lim in &[40000usize, 70000, 200000] {
            limited.push((format!("bigchunk{}-limit{}", n, lim), assemble(&chunks), lim));
        }
    }
    for (name, bytes, lim) in &limited {
        let whole = strip_leftover(&strip_pc(&run_l0(&[bytes.clone()], Opts::default(), Some(*lim)).text));
        o.count("l0.limited-bigchunk");
        for sc in [vec![1usize], vec![7], vec![1000], vec![32768], vec![32769, 1], vec![rng.range(1, 5000) as usize]] {
            let r = run_l0(&split_sched(bytes, &sc), Opts::default(), Some(*lim));
            o.direct_checks += 1;
            let got = strip_leftover(&strip_pc(&r.text));
            if got != whole {
                o.violation(viol("l0-observation-depends-on-delivery", vec![("file", jstr(name)), ("limit", lim.to_string()), ("schedule", jstr(&format!("{:?}", sc))),
                    ("whole", jstr(&whole.chars().take(600).collect::<String>())), ("pieces", jstr(&got.chars().take(600).collect::<String>()))]));
                break;
            }
        }
    }
    // more than 128 KiB of image data with maximal-distance back-references (the inflater's window must survive every compaction schedule)
    {
        let im = crate::c01::far_match_image(&mut rng, 200, 32768, 0);
        files.push((im.name.clone(), im.file.clone()));
    }
    // long runs of IDAT / fdAT chunks that carry no image data (legal): the number of steps a delivery needs must not matter
    for (n_empty, at) in [(16usize, 0usize), (40, 1), (200, 1), (64, 2)] {
        use crate::pngbuild::*;
        let raw: Vec<u8> = (0..4 * 5).map(|i| if i % 5 == 0 { 0 } else { i as u8 }).collect();
        let z = zlib_flate2(&raw, 6);
        let cut = z.len() / 2;
        let mut chunks = vec![ihdr(4, 4, 8, 0, 0)];
        let parts = [&z[..cut], &z[cut..]];
        for (pi, p) in parts.iter().enumerate() {
            if at == pi || at == 2 { for _ in 0..n_empty { chunks.push(Chunk::new(b"IDAT", vec![])); } }
            chunks.push(Chunk::new(b"IDAT", p.to_vec()));
        }
        if at == 2 { for _ in 0..n_empty { chunks.push(Chunk::new(b"IDAT", vec![])); } }
        chunks.push(Chunk::new(b"IEND", vec![]));
        files.push((format!("empty-idat-run-{}-{}", n_empty, at), assemble(&chunks)));
    }
    let optsets = [Opts::default(), Opts { ignore_crc: true, ..Opts::default() }, Opts { skip_anc_crc: false, ignore_adler: false, ..Opts::default() }];
    for (fi, (name, bytes)) in files.iter().enumerate() {
        let opts = optsets[fi % optsets.len()];
        let whole = run_l0(&[bytes.clone()], opts, None);
        let base = strip_leftover(&strip_pc(&whole.text));
        let kind = if name.contains('~') { "mutated" } else { "valid-or-corpus" };
        o.count(&format!("l0.{}", kind));
        o.count(&format!("l0.end.{}", base.split(" END=").nth(1).unwrap_or("").split(' ').next().unwrap_or("").split(':').take(2).collect::<Vec<_>>().join(":")));
        let scheds = if bytes.len() > 100_000 { vec![vec![1usize], vec![3], vec![4096], vec![rng.range(100, 9000) as usize], vec![65536, 1, 1]] }
                     else { schedules(bytes.len(), &mut rng, if thorough { 40 } else { 10 }, bytes.len() <= if thorough { 4096 } else { 700 }) };
        for sc in &scheds {
            let pieces = split_sched(bytes, sc);
            let r = run_l0(&pieces, opts, None);
            o.direct_checks += 1;
            let got = strip_leftover(&strip_pc(&r.text));
            if got != base {
                // known finding: corrupt deflate data inside a data chunk also breaks that chunk's CRC - two errors for one frame; fdeflate takes
                // the bytes of a call into its bit buffer before it decodes them, so with large pieces the chunk can be over (CRC compared) before
                // the corruption is seen, with small pieces the corruption is seen first
                let parts = |t: &str| -> (String, String, String) { let (ev, rest) = t.split_once(" END=").unwrap_or((t, "")); let (end, info) = rest.split_once(" INFO=").unwrap_or((rest, "")); (ev.to_string(), end.to_string(), info.to_string()) };
                let (be, bend, binfo) = parts(&base); let (ge, gend, ginfo) = parts(&got);
                let pair = ["ERR:Format:CorruptFlateStream", "ERR:Format:CrcMismatch"];
                let race = pair.contains(&bend.as_str()) && pair.contains(&gend.as_str()) && bend != gend && binfo == ginfo && (be == ge || be.starts_with(&ge) || ge.starts_with(&be));
                let mut v = viol("l0-observation-depends-on-delivery", vec![("file", jstr(name)), ("bytes", jstr(&hex(bytes))), ("opts", opts.bits().to_string()),
                    ("schedule", jstr(&format!("{:?}", sc))), ("whole", jstr(&base)), ("pieces", jstr(&got))]);
                if race { v = v.replacen("\"class\": \"l0-observation-depends-on-delivery\"", "\"class\": \"corrupt-deflate-data-and-the-crc-mismatch-of-its-chunk-reported-in-delivery-dependent-order\"", 1); }
                o.violation(v);
                break;
            }
        }
        o.distinct(&format!("{}-{}-{}", kind, bytes.len() % 64, base.len() % 97));
        // model correspondence: the whole file and one or two schedules (the model re-inflates per piece: small files only)
        if bytes.len() <= 1200 {
            let scs: Vec<Vec<usize>> = vec![vec![0], vec![1], scheds[rng.below(scheds.len() as u64) as usize].clone()];
            for sc in scs.iter().take(if bytes.len() <= 400 { 3 } else { 1 }) {
                let pieces = split_sched(bytes, sc);
                let r = run_l0(&pieces, opts, None);
                let sizes = if sc.is_empty() { "-".to_string() } else { sc.iter().map(|x| x.to_string()).collect::<Vec<_>>().join(",") };
                o.case(&format!("l0 {} {} {} {}", opts.bits(), 67108864u64, sizes, hex(bytes)), &strip_d(&r.text), &format!("{}-{}", kind, base.len() % 211), bytes.len() > 33);
            }
        }
        // Reader level: piecewise BufRead
        let one = reader_summary(bytes, &[0], opts, 0x0);
        for sc in scheds.iter().take(if thorough { 30 } else { 8 }) {
            let got = reader_summary(bytes, sc, opts, 0x0);
            o.direct_checks += 1;
            if got != one {
                // known finding: a frame that has BOTH an undefined filter byte in its rows and a corrupt deflate stream further on: which of
                // the two errors is reported depends on how much the inflater was fed before the rows were looked at
                let a: Vec<&str> = one.split(" | ").collect();
                let b: Vec<&str> = got.split(" | ").collect();
                let racing = |x: &str, y: &str| {
                    let kinds = ["err:Format:CorruptFlateStream", "err:Format:UnknownFilterMethod"];
                    let (fx, ex) = x.split_once(' ').unwrap_or((x, ""));
                    let (fy, ey) = y.split_once(' ').unwrap_or((y, ""));
                    fx == fy && fx.starts_with('F') && fx != "FIN" && kinds.contains(&ex) && kinds.contains(&ey) && ex != ey
                };
                let only_race = a.len() == b.len() && a.iter().zip(b.iter()).all(|(x, y)| x == y || racing(x, y) || (x.starts_with("FIN ") && y.starts_with("FIN ")))
                    && a.iter().zip(b.iter()).any(|(x, y)| racing(x, y));
                let racing2 = |x: &str, y: &str| {
                    let kinds = ["err:Format:CorruptFlateStream", "err:Format:CrcMismatch"];
                    let (fx, ex) = x.split_once(' ').unwrap_or((x, ""));
                    let (fy, ey) = y.split_once(' ').unwrap_or((y, ""));
                    fx == fy && fx.starts_with('F') && fx != "FIN" && kinds.contains(&ex) && kinds.contains(&ey) && ex != ey
                };
                let only_race2 = a.len() == b.len() && a.iter().zip(b.iter()).all(|(x, y)| x == y || racing2(x, y) || (x.starts_with("FIN ") && y.starts_with("FIN ")))
                    && a.iter().zip(b.iter()).any(|(x, y)| racing2(x, y));
                let class = if only_race { "filter-error-and-corrupt-stream-in-one-frame-reported-in-delivery-dependent-order" }
                    else if only_race2 { "corrupt-deflate-data-and-the-crc-mismatch-of-its-chunk-reported-in-delivery-dependent-order" } else { "reader-result-depends-on-delivery" };
                let mut v = viol("reader-result-depends-on-delivery", vec![("file", jstr(name)), ("bytes", jstr(&hex(bytes))), ("opts", opts.bits().to_string()),
                    ("schedule", jstr(&format!("{:?}", sc))), ("whole", jstr(&one)), ("pieces", jstr(&got))]);
                v = v.replacen("\"class\": \"reader-result-depends-on-delivery\"", &format!("\"class\": \"{}\"", class), 1);
                o.violation(v);
                break;
            }
        }
    }
    // Reader level under allocation limits: what a limit lets through must not depend on the delivery (what is charged against the limit is a
    // function of the file, not of how much the reader happens to have buffered)
    {
        let mut big: Vec<(String, Vec<u8>)> = vec![];
        for (w, h, c, d, il) in [(200u32, 600u32, 0u8, 8u8, false), (300, 150, 2, 8, false), (120, 500, 4, 8, true), (1000, 70, 0, 16, false)] {
            let im = crate::c01::random_image(&mut rng, w, h, c, d, il);
            big.push((im.name.clone(), im.file.clone()));
        }
        let b = crate::gen::held_back_tail_file(63, 1030, 2, 1, &[], &[]);
        big.push((b.name.clone(), b.bytes.clone()));
        for (name, bytes) in &big {
            for limit in [200usize, 4096, 65_536, 70_000, 131_072, 300_000, 1 << 22] {
                let one = reader_summary_limited(bytes, &[0], Opts::default(), 0, Some(limit));
                for sc in [vec![1usize], vec![64], vec![1000], vec![8192], vec![rng.range(2, 5000) as usize]] {
                    if bytes.len() > 60_000 && sc[0] == 1 && !thorough { continue; }
                    let got = reader_summary_limited(bytes, &sc, Opts::default(), 0, Some(limit));
                    o.direct_checks += 1;
                    o.count("reader-under-limits");
                    if got != one {
                        o.violation(viol("reader-result-depends-on-delivery", vec![("file", jstr(name)), ("limit", limit.to_string()), ("schedule", jstr(&format!("{:?}", sc))),
                            ("whole", jstr(&one.chars().take(400).collect::<String>())), ("pieces", jstr(&got.chars().take(400).collect::<String>()))]));
                        break;
                    }
                }
            }
        }
    }
    o.finish();
}

pub fn replay(case: &str) -> String {
    let t: Vec<&str> = case.split_whitespace().collect();
    if t.len() == 5 && t[0] == "l0" {
        let bytes = unhex(t[4]);
        let sizes: Vec<usize> = if t[3] == "-" { vec![] } else { t[3].split(',').map(|x| x.parse().unwrap()).collect() };
        let pieces = split_sched(&bytes, &sizes);
        return strip_d(&run_l0(&pieces, Opts::from_bits(t[1].parse().unwrap()), None).text);
    }
    "unknown-case".into()
}
