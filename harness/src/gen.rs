//! Input generators shared by the stream-level and reader-level checks: valid PNG/APNG files with arbitrary
//! legal ancillary chunks, and structural mutations with CRC repair.  Everything is derived from one `Rng`.
use crate::pngbuild::*;
use crate::refimpl::*;
use crate::util::*;

/// Expected content of one frame: fcTL fields (None for a default image outside the animation) and packed pixels.
#[derive(Clone, Debug)]
pub struct FrameExp {
    pub fctl: Option<(u32, u32, u32, u32, u32, u16, u16, u8, u8)>, // seq,w,h,x,y,dn,dd,dop,bop
    pub w: u32,
    pub h: u32,
    pub pixels: Vec<u8>, // identity-decoded, packed h rows of row_bytes(w); padding bits as the decoder leaves them into a zeroed buffer
    pub rows: Vec<Vec<u8>>,
}

#[derive(Clone, Debug)]
pub struct Built {
    pub name: String,
    pub bytes: Vec<u8>,
    pub spec: ImageSpec,
    pub palette: Option<Vec<u8>>,
    pub trns: Option<Vec<u8>>,
    pub frames: Vec<FrameExp>,
    pub animated: bool,
}

pub fn random_spec(rng: &mut Rng, maxw: u32, maxh: u32) -> ImageSpec {
    let (color, depth) = *rng.pick(&COLOR_DEPTHS);
    ImageSpec { w: rng.range(1, maxw as u64) as u32, h: rng.range(1, maxh as u64) as u32, color, depth, interlaced: rng.chance(1, 3) }
}

fn be32(v: u32) -> [u8; 4] {
    v.to_be_bytes()
}

fn boundary_u32(rng: &mut Rng) -> u32 {
    match rng.below(6) {
        0 => 0,
        1 => 1,
        2 => 0x7fff_ffff,
        3 => 0xffff_ffff,
        4 => rng.next() as u32,
        _ => rng.below(100_000) as u32,
    }
}

pub fn latin1_text(rng: &mut Rng, n: usize) -> Vec<u8> {
    (0..n).map(|_| match rng.below(4) { 0 => rng.range(32, 126) as u8, 1 => rng.range(161, 255) as u8, 2 => b' ', _ => rng.range(65, 90) as u8 }).collect()
}

pub fn keyword(rng: &mut Rng) -> Vec<u8> {
    let n = *rng.pick(&[1usize, 1, 5, 12, 78, 79]);
    (0..n).map(|_| rng.range(33, 126) as u8).collect()
}

pub fn utf8_text(rng: &mut Rng, n: usize) -> Vec<u8> {
    let mut s = String::new();
    for _ in 0..n {
        let c = match rng.below(5) {
            0 => char::from_u32(rng.range(0x20, 0x7e) as u32),
            1 => char::from_u32(rng.range(0xa0, 0x7ff) as u32),
            2 => char::from_u32(rng.range(0x800, 0xd7ff) as u32),
            3 => char::from_u32(rng.range(0x10000, 0x10ffff) as u32),
            _ => Some('x'),
        };
        s.push(c.unwrap_or('?'));
    }
    s.into_bytes()
}

/// A legal ancillary chunk of the named kind for the image `s` (values arbitrary within the legal range).
pub fn legal_chunk(kind: &str, s: &ImageSpec, rng: &mut Rng, plte_entries: usize) -> Chunk {
    match kind {
        "gAMA" => Chunk::new(b"gAMA", be32(boundary_u32(rng)).to_vec()),
        "cHRM" => Chunk::new(b"cHRM", (0..8).flat_map(|_| be32(boundary_u32(rng))).collect()),
        "sRGB" => Chunk::new(b"sRGB", vec![rng.below(4) as u8]),
        "pHYs" => {
            let mut d = be32(boundary_u32(rng)).to_vec();
            d.extend_from_slice(&be32(boundary_u32(rng)));
            d.push(rng.below(2) as u8);
            Chunk::new(b"pHYs", d)
        }
        "sBIT" => {
            let n = match s.color { 0 => 1, 2 | 3 => 3, 4 => 2, _ => 4 };
            let maxd = if s.color == 3 { 8 } else { s.depth };
            Chunk::new(b"sBIT", (0..n).map(|_| rng.range(1, maxd as u64) as u8).collect())
        }
        "bKGD" => {
            let n = match s.color { 3 => 1, 0 | 4 => 2, _ => 6 };
            Chunk::new(b"bKGD", (0..n).map(|_| rng.byte()).collect())
        }
        "tRNS" => {
            let d: Vec<u8> = match s.color {
                0 => vec![rng.byte(), rng.byte()],
                2 => (0..6).map(|_| rng.byte()).collect(),
                _ => (0..rng.range(1, plte_entries.max(1) as u64)).map(|_| rng.byte()).collect(),
            };
            Chunk::new(b"tRNS", d)
        }
        "cICP" => Chunk::new(b"cICP", vec![rng.byte(), rng.byte(), 0, rng.below(2) as u8]),
        "mDCV" => Chunk::new(b"mDCV", (0..24).map(|_| rng.byte()).collect()),
        "cLLI" => Chunk::new(b"cLLI", (0..8).map(|_| rng.byte()).collect()),
        "eXIf" => Chunk::new(b"eXIf", (0..rng.range(1, 40)).map(|_| rng.byte()).collect()),
        "tEXt" => {
            let mut d = keyword(rng);
            d.push(0);
            let n = rng.below(30) as usize;
            d.extend(latin1_text(rng, n));
            Chunk::new(b"tEXt", d)
        }
        "zTXt" => {
            let mut d = keyword(rng);
            d.push(0);
            d.push(0);
            let n = rng.below(60) as usize;
            let t = latin1_text(rng, n);
            let k = rng.below(7);
            d.extend(compress(&t, k, rng));
            Chunk::new(b"zTXt", d)
        }
        "iTXt" => {
            let mut d = keyword(rng);
            d.push(0);
            let comp = rng.chance(1, 2);
            d.push(comp as u8);
            d.push(0);
            let lang: Vec<u8> = (0..rng.below(6)).map(|_| rng.range(97, 122) as u8).collect();
            d.extend(lang);
            d.push(0);
            let n = rng.below(5) as usize;
            d.extend(utf8_text(rng, n));
            d.push(0);
            let n = rng.below(40) as usize;
            let t = utf8_text(rng, n);
            if comp {
                let k = rng.below(7);
                d.extend(compress(&t, k, rng));
            } else {
                d.extend(t);
            }
            Chunk::new(b"iTXt", d)
        }
        "iCCP" => {
            let mut d = keyword(rng);
            d.push(0);
            d.push(0);
            let n = *rng.pick(&[0usize, 1, 20, 300]);
            let prof: Vec<u8> = (0..n).map(|_| rng.byte()).collect();
            let k = rng.below(7);
            d.extend(compress(&prof, k, rng));
            Chunk::new(b"iCCP", d)
        }
        _ => {
            // unknown ancillary chunk: lower-case first letter
            let ty = [rng.range(97, 122) as u8, rng.range(65, 90) as u8, rng.range(65, 90) as u8, rng.range(97, 122) as u8];
            Chunk::new(&ty, (0..rng.below(20)).map(|_| rng.byte()).collect())
        }
    }
}

pub const PRE_PLTE_KINDS: [&str; 10] = ["gAMA", "cHRM", "sRGB", "iCCP", "sBIT", "cICP", "mDCV", "cLLI", "pHYs", "eXIf"];
pub const ANY_KINDS: [&str; 5] = ["tEXt", "zTXt", "iTXt", "unknown", "eXIf"];

/// image data of one frame of size (w,h) for spec s
fn frame_data(s: &ImageSpec, w: u32, h: u32, rng: &mut Rng) -> (Vec<Vec<u8>>, Vec<u8>, Vec<u8>) {
    let fs = ImageSpec { w, h, ..s.clone() };
    let rows = random_rows(&fs, w, h, rng);
    let filters: Vec<u8> = (0..(h as usize * 2 + 7)).map(|_| rng.below(5) as u8).collect();
    let stream = filtered_stream(&fs, w, h, &rows, &filters);
    let k = rng.below(7);
    let z = compress(&stream, k, rng);
    let px = expected_pixels(&fs, w, h, &rows);
    (rows, z, px)
}

pub struct GenOpts {
    pub maxw: u32,
    pub maxh: u32,
    pub anc: bool,
    pub animated: Option<bool>,
}

/// A valid PNG or APNG with random legal ancillary chunks in legal positions.
pub fn valid_file(rng: &mut Rng, g: &GenOpts) -> Built {
    let s = random_spec(rng, g.maxw, g.maxh);
    valid_file_for(rng, g, s)
}

pub fn valid_file_for(rng: &mut Rng, g: &GenOpts, s: ImageSpec) -> Built {
    let animated = g.animated.unwrap_or_else(|| rng.chance(1, 3));
    let mut chunks = vec![ihdr(s.w, s.h, s.depth, s.color, s.interlaced as u8)];
    let mut name = format!("c{}d{}{}-{}x{}", s.color, s.depth, if s.interlaced { "i" } else { "n" }, s.w, s.h);
    let plte_entries = if s.color == 3 { rng.range(1, 1 << s.depth.min(8)) as usize } else { 0 };
    // make sure indexed images address only existing entries?  Not required for validity: out-of-range = black.
    if g.anc {
        for k in PRE_PLTE_KINDS.iter() {
            if rng.chance(1, 4) {
                chunks.push(legal_chunk(k, &s, rng, plte_entries));
                name.push_str(&format!("+{}", k));
            }
        }
    }
    let mut palette = None;
    if s.color == 3 || (g.anc && (s.color == 2 || s.color == 6) && rng.chance(1, 8)) {
        let n = if s.color == 3 { plte_entries } else { rng.range(1, 16) as usize };
        let p = palette_chunk(n, rng);
        palette = Some(p.data.clone());
        chunks.push(p);
    }
    let mut trns = None;
    if g.anc {
        if (s.color == 0 || s.color == 2 || s.color == 3) && rng.chance(1, 3) {
            let c = legal_chunk("tRNS", &s, rng, plte_entries);
            trns = Some(c.data.clone());
            chunks.push(c);
            name.push_str("+tRNS");
        }
        if rng.chance(1, 4) {
            chunks.push(legal_chunk("bKGD", &s, rng, plte_entries));
            name.push_str("+bKGD");
        }
        for k in ANY_KINDS.iter() {
            if rng.chance(1, 5) {
                chunks.push(legal_chunk(k, &s, rng, plte_entries));
                name.push_str(&format!("+{}", k));
            }
        }
    }
    let mut frames = vec![];
    let mut seq = 0u32;
    if animated {
        let nframes = rng.range(1, 4) as u32;
        let sep_default = rng.chance(1, 3);
        chunks.push(actl_chunk(nframes, rng.below(3) as u32));
        name.push_str(&format!("+a{}{}", nframes, if sep_default { "s" } else { "" }));
        // first image
        let (rows, z, px) = frame_data(&s, s.w, s.h, rng);
        if !sep_default {
            let f = (seq, s.w, s.h, 0, 0, rng.below(100) as u16, rng.below(100) as u16, rng.below(3) as u8, rng.below(2) as u8);
            chunks.push(fctl_chunk(f.0, f.1, f.2, f.3, f.4, f.5, f.6, f.7, f.8));
            seq += 1;
            frames.push(FrameExp { fctl: Some(f), w: s.w, h: s.h, pixels: px, rows });
        } else {
            frames.push(FrameExp { fctl: None, w: s.w, h: s.h, pixels: px, rows });
        }
        let n = rng.range(1, 3) as usize;
        for p in split_random(&z, n, rng, true) {
            chunks.push(Chunk::new(b"IDAT", p));
        }
        let rest = if sep_default { nframes } else { nframes - 1 };
        for _ in 0..rest {
            let fw = rng.range(1, s.w as u64) as u32;
            let fh = rng.range(1, s.h as u64) as u32;
            let fx = rng.range(0, (s.w - fw) as u64) as u32;
            let fy = rng.range(0, (s.h - fh) as u64) as u32;
            let f = (seq, fw, fh, fx, fy, rng.below(100) as u16, rng.below(100) as u16, rng.below(3) as u8, rng.below(2) as u8);
            chunks.push(fctl_chunk(f.0, f.1, f.2, f.3, f.4, f.5, f.6, f.7, f.8));
            seq += 1;
            let (rows, z, px) = frame_data(&s, fw, fh, rng);
            frames.push(FrameExp { fctl: Some(f), w: fw, h: fh, pixels: px, rows });
            let n = rng.range(1, 3) as usize;
            for p in split_random(&z, n, rng, false) {
                chunks.push(fdat_chunk(seq, &p));
                seq += 1;
            }
            if g.anc && rng.chance(1, 6) {
                chunks.push(legal_chunk("tEXt", &s, rng, plte_entries));
            }
        }
    } else {
        let (rows, z, px) = frame_data(&s, s.w, s.h, rng);
        frames.push(FrameExp { fctl: None, w: s.w, h: s.h, pixels: px, rows });
        let n = rng.range(1, 4) as usize;
        for p in split_random(&z, n, rng, true) {
            chunks.push(Chunk::new(b"IDAT", p));
        }
    }
    if g.anc {
        for k in ANY_KINDS.iter() {
            if rng.chance(1, 8) {
                chunks.push(legal_chunk(k, &s, rng, plte_entries));
                name.push_str(&format!("+{}'", k));
            }
        }
    }
    chunks.push(Chunk::new(b"IEND", vec![]));
    Built { name, bytes: assemble(&chunks), spec: s, palette, trns, frames, animated }
}

/// Structural mutations (CRCs recomputed, so the decoder sees the violation and not the checksum).
/// Returns (label, bytes).
pub fn mutate_structural(file: &[u8], rng: &mut Rng) -> (String, Vec<u8>) {
    let mut chunks = match parse(file) {
        Some(c) => c,
        None => return ("unparsed".into(), file.to_vec()),
    };
    for c in chunks.iter_mut() {
        c.crc = None;
    }
    let n = chunks.len();
    if n == 0 {
        return ("no-chunks".into(), file.to_vec());
    }
    let i = rng.below(n as u64) as usize;
    let label;
    match rng.below(12) {
        0 => {
            chunks.remove(i);
            label = format!("delete#{}", i);
        }
        1 => {
            let c = chunks[i].clone();
            chunks.insert(i, c);
            label = format!("dup#{}", i);
        }
        2 => {
            let j = rng.below(n as u64) as usize;
            chunks.swap(i, j);
            label = format!("swap#{}#{}", i, j);
        }
        3 => {
            if !chunks[i].data.is_empty() {
                let k = rng.below(chunks[i].data.len() as u64) as usize;
                chunks[i].data.truncate(k);
            }
            label = format!("truncdata#{}", i);
        }
        4 => {
            chunks[i].data.push(rng.byte());
            label = format!("extend#{}", i);
        }
        5 => {
            if !chunks[i].data.is_empty() {
                let k = rng.below(chunks[i].data.len() as u64) as usize;
                chunks[i].data[k] ^= 1 << rng.below(8);
            }
            label = format!("bitflip-data#{}", i);
        }
        6 => {
            let k = rng.below(4) as usize;
            chunks[i].ty[k] ^= 0x20;
            label = format!("caseflip-type#{}", i);
        }
        7 => {
            // a stray data chunk somewhere
            let c = if rng.chance(1, 2) { Chunk::new(b"IDAT", vec![rng.byte()]) } else { fdat_chunk(rng.below(5) as u32, &[1, 2, 3]) };
            chunks.insert(i, c);
            label = format!("stray-data#{}", i);
        }
        8 => {
            // change a field of the first fcTL / IHDR
            if let Some(c) = chunks.iter_mut().find(|c| (&c.ty == b"fcTL" || &c.ty == b"IHDR") && !c.data.is_empty()) {
                let k = rng.below(c.data.len() as u64) as usize;
                c.data[k] = *rng.pick(&[0u8, 1, 2, 3, 5, 7, 8, 9, 16, 17, 255]);
            }
            label = "field".into();
        }
        9 => {
            let c = legal_chunk(*rng.pick(&["gAMA", "sRGB", "pHYs", "tEXt", "iTXt", "unknown", "cLLI"]), &ImageSpec { w: 1, h: 1, color: 0, depth: 8, interlaced: false }, rng, 1);
            chunks.insert(i, c);
            label = format!("insert-anc#{}", i);
        }
        10 => {
            chunks.truncate(i);
            label = format!("drop-tail#{}", i);
        }
        _ => {
            // empty an IDAT/fdAT payload (keeping the fdAT sequence number)
            if let Some(c) = chunks.iter_mut().find(|c| &c.ty == b"IDAT" || &c.ty == b"fdAT") {
                let keep = if &c.ty == b"fdAT" { 4.min(c.data.len()) } else { 0 };
                c.data.truncate(keep);
            }
            label = "empty-data".into();
        }
    }
    (label, assemble(&chunks))
}

/// Byte-level mutation without CRC repair.
pub fn mutate_bytes(file: &[u8], rng: &mut Rng) -> (String, Vec<u8>) {
    let mut v = file.to_vec();
    if v.is_empty() {
        return ("empty".into(), v);
    }
    match rng.below(4) {
        0 => {
            let k = rng.below(v.len() as u64) as usize;
            v[k] ^= 1 << rng.below(8);
            (format!("bit@{}", k), v)
        }
        1 => {
            let k = rng.below(v.len() as u64) as usize;
            v.truncate(k);
            (format!("trunc@{}", k), v)
        }
        2 => {
            let k = rng.below(v.len() as u64) as usize;
            v[k] = rng.byte();
            (format!("byte@{}", k), v)
        }
        _ => {
            let k = rng.below(v.len() as u64) as usize;
            v.insert(k, rng.byte());
            (format!("ins@{}", k), v)
        }
    }
}

/// Small files of the repository's own test corpora (read at run time; missing directories are skipped).
pub fn corpus_files(max_len: usize, max_files: usize, rng: &mut Rng) -> Vec<(String, Vec<u8>)> {
    let mut all = vec![];
    let repo = std::env::var("VERIF_REPO").unwrap_or_else(|_| "/repo".to_string());
    for d in ["tests/pngsuite", "tests/pngsuite-extra", "tests/bugfixes", "tests/animated", "tests/benches"] {
        if let Ok(rd) = std::fs::read_dir(format!("{}/{}", repo, d)) {
            let mut names: Vec<_> = rd.filter_map(|e| e.ok()).map(|e| e.path()).filter(|p| p.extension().map(|x| x == "png").unwrap_or(false)).collect();
            names.sort();
            for p in names {
                if let Ok(b) = std::fs::read(&p) {
                    if b.len() <= max_len {
                        all.push((p.file_name().unwrap().to_string_lossy().to_string(), b));
                    }
                }
            }
        }
    }
    // deterministic subsample
    while all.len() > max_files {
        let k = rng.below(all.len() as u64) as usize;
        all.swap_remove(k);
    }
    all.sort();
    all
}

/// canvas cw x ch, frame 0 = full canvas (in the animation), frame 1 = the given rectangle, 1..3 fdAT chunks
pub fn apng_with_rect(rng: &mut Rng, cw: u32, ch: u32, fw: u32, fh: u32, fx: u32, fy: u32, interlaced: bool) -> Built {
    let (color, depth) = *rng.pick(&COLOR_DEPTHS);
    let s = ImageSpec { w: cw, h: ch, color, depth, interlaced };
    let mut chunks = vec![ihdr(cw, ch, depth, color, interlaced as u8)];
    let mut palette = None;
    if color == 3 {
        let p = palette_chunk(1 << depth.min(8), rng);
        palette = Some(p.data.clone());
        chunks.push(p);
    }
    chunks.push(actl_chunk(2, 0));
    let mut frames = vec![];
    let f0 = (0u32, cw, ch, 0u32, 0u32, 1u16, 1u16, 0u8, 0u8);
    chunks.push(fctl_chunk(f0.0, f0.1, f0.2, f0.3, f0.4, f0.5, f0.6, f0.7, f0.8));
    let (rows, z, px) = frame_data(&s, cw, ch, rng);
    chunks.push(Chunk::new(b"IDAT", z));
    frames.push(FrameExp { fctl: Some(f0), w: cw, h: ch, pixels: px, rows });
    let f1 = (1u32, fw, fh, fx, fy, 2u16, 3u16, 1u8, 1u8);
    chunks.push(fctl_chunk(f1.0, f1.1, f1.2, f1.3, f1.4, f1.5, f1.6, f1.7, f1.8));
    let (rows, z, px) = frame_data(&s, fw, fh, rng);
    let mut seq = 2;
    let n = rng.range(1, 3) as usize;
    for p in split_random(&z, n, rng, true) {
        chunks.push(fdat_chunk(seq, &p));
        seq += 1;
    }
    frames.push(FrameExp { fctl: Some(f1), w: fw, h: fh, pixels: px, rows });
    chunks.push(Chunk::new(b"IEND", vec![]));
    Built { name: format!("rect-c{}d{}{}-{}x{}-{}x{}@{},{}", color, depth, if interlaced { "i" } else { "n" }, cw, ch, fw, fh, fx, fy), bytes: assemble(&chunks), spec: s, palette, trns: None, frames, animated: true }
}

/// Files whose frames are a little more than `32 KiB * 2^k` of highly compressible filtered data: fdeflate has pulled the last compressed
/// bytes in when its output buffer is full, so the last rows of a frame are released only with the end-of-sequence flush, after the reader
/// has seen the chunk that follows the frame's data.  8-bit grey, `w` pixels wide; `frames == 0` builds a still image, otherwise an
/// animation of that many frames (all of canvas size, first one in IDAT).  `producer` 0: constant filtered bytes as one fixed-Huffman run
/// (`frame f` uses filter type and data byte `(f + 1) % 5`), 1: the same through zlib level 9, 2: slowly varying rows through zlib level 9.
/// `surplus[f]` extra filtered rows are appended to frame f's stream, `missing[f]` rows are left out (both tolerated / refused by the decoder;
/// `frames[f]` always describes the complete frame).
pub fn held_back_tail_file(w: u32, h: u32, frames: u32, producer: u8, surplus: &[u32], missing: &[u32]) -> Built {
    let s = ImageSpec { w, h, color: 0, depth: 8, interlaced: false };
    let mut chunks = vec![ihdr(w, h, 8, 0, 0)];
    if frames > 0 {
        chunks.push(actl_chunk(frames, 0));
    }
    let mut exp = vec![];
    let mut seq = 0u32;
    for f in 0..frames.max(1) {
        let c = ((f + 1) % 5) as u8;
        let extra = surplus.get(f as usize).copied().unwrap_or(0);
        let less = missing.get(f as usize).copied().unwrap_or(0);
        let mut stream = vec![];
        let mut rows = vec![];
        let mut pixels = vec![];
        let mut prior: Vec<u8> = vec![];
        for r in 0..h + extra {
            let (ft, filt): (u8, Vec<u8>) = if producer < 2 { (c, vec![c; w as usize]) } else {
                ((f % 3) as u8 * 2, (0..w).map(|x| ((r / 64) as u8).wrapping_mul(3).wrapping_add(f as u8 * 40).wrapping_add((x / 8) as u8)).collect())
            };
            if r < h - less.min(h) || r >= h {
                stream.push(ft);
                stream.extend_from_slice(&filt);
            }
            if r < h {
                let row = recon_ref(ft, 1, &prior, &filt);
                pixels.extend_from_slice(&row);
                rows.push(row.clone());
                prior = row;
            }
        }
        let z = if producer == 0 { crate::c01::zlib_fixed_run(&stream) } else { zlib_flate2(&stream, 9) };
        let fc = if frames > 0 {
            let fc = (seq, w, h, 0u32, 0u32, 1u16, 10u16, 0u8, 0u8);
            chunks.push(fctl_chunk(fc.0, fc.1, fc.2, fc.3, fc.4, fc.5, fc.6, fc.7, fc.8));
            seq += 1;
            Some(fc)
        } else { None };
        if f == 0 { chunks.push(Chunk::new(b"IDAT", z)); } else { chunks.push(fdat_chunk(seq, &z)); seq += 1; }
        exp.push(FrameExp { fctl: fc, w, h, pixels, rows });
    }
    chunks.push(Chunk::new(b"IEND", vec![]));
    Built { name: format!("held-back-tail-{}x{}-f{}-p{}-s{:?}-m{:?}", w, h, frames, producer, surplus, missing), bytes: assemble(&chunks), spec: s, palette: None, trns: None, frames: exp, animated: frames > 0 }
}

/// the heights at which `h` rows of `rowlen` bytes are just above 32, 64 and 128 KiB
pub fn heights_just_above_buffer_sizes(rowlen: usize, spread: u32) -> Vec<u32> {
    let mut v = vec![];
    for k in [32768usize, 65536, 131072] {
        let h0 = ((k + rowlen - 1) / rowlen) as u32;
        for d in 0..=spread { v.push(h0 + d); }
    }
    v
}
