//! C09: APNG frames are delivered in order, complete, each with its own frame-control values, pixels equal to the
//! specification's reconstruction, packed as OutputInfo says, independent of the previous buffer contents; after the
//! last frame further requests report end-of-image.
use crate::gen::*;
use crate::ops::mask_padding;
use crate::readerrun::*;
use crate::refimpl::*;
use crate::streamrun::*;
use crate::util::*;

fn viol(kind: &str, detail: Vec<(&str, String)>) -> String {
    let mut kv = vec![("kind", jstr(kind)), ("class", jstr(kind))];
    kv.extend(detail);
    jobj(&kv)
}

pub fn check_apng(o: &mut Out, b: &Built, rng: &mut Rng) {
    let bits = samples(b.spec.color) * b.spec.depth as usize;
    let mut per_fill: Vec<Vec<Vec<u8>>> = vec![];
    for fill in [0x00u8, 0xFF, rng.byte()] {
        o.mark(&format!("apng fill={} {} {}", fill, b.name, hex(&b.bytes)));
        let (end, got) = decode_frames(&b.bytes, Opts::default(), 0, fill);
        o.direct_checks += 1;
        let report = |o: &mut Out, kind: &str, k: usize, extra: Vec<(&'static str, String)>| {
            let mut d = vec![("file", jstr(&b.name)), ("frame", k.to_string()), ("buffer_prefill", fill.to_string()), ("bytes", jstr(&hex(&b.bytes))), ("end", jstr(&end))];
            d.extend(extra);
            o.violation(viol(kind, d));
        };
        if got.len() != b.frames.len() {
            report(o, "wrong-number-of-frames-delivered", got.len(), vec![("expected_frames", b.frames.len().to_string())]);
            return;
        }
        if end != "err:Param:PolledAfterEndOfImage @".to_string() + &got.last().map(|g| g.0.split("fctl=").nth(1).unwrap_or("").to_string()).unwrap_or_default()
            && !end.starts_with("err:Param:PolledAfterEndOfImage")
        {
            report(o, "no-end-of-image-after-the-last-frame", got.len(), vec![]);
        }
        let mut masked = vec![];
        for (k, ((desc, px), want)) in got.iter().zip(b.frames.iter()).enumerate() {
            let line = (want.w as usize * bits + 7) / 8;
            let want_desc = format!("ok {}x{} {}:{} line={} n={}", want.w, want.h, b.spec.color, b.spec.depth, line, line * want.h as usize);
            let want_fctl = match want.fctl {
                Some(f) => format!("{}:{}:{}:{}:{}:{}:{}:{}:{}", f.0, f.1, f.2, f.3, f.4, f.5, f.6, f.7, f.8),
                None => "none".to_string(),
            };
            if !desc.starts_with(&want_desc) {
                report(o, "frame-geometry-differs-from-frame-control", k, vec![("reported", jstr(desc)), ("expected", jstr(&want_desc))]);
                return;
            }
            // the default image outside the animation reports whatever fcTL precedes it: none
            if !desc.ends_with(&format!("fctl={}", want_fctl)) {
                report(o, "frame-control-values-differ", k, vec![("reported", jstr(desc)), ("expected_fctl", jstr(&want_fctl))]);
                return;
            }
            let (m_got, m_want) = (mask_padding(px, line, want.w as usize * bits), mask_padding(&want.pixels, line, want.w as usize * bits));
            if m_got != m_want {
                let first = m_got.iter().zip(m_want.iter()).position(|(a, b)| a != b);
                report(o, "frame-pixels-differ-from-specification", k, vec![("first_differing_byte", jstr(&format!("{:?}", first))), ("impl", jstr(&hex(px))), ("spec", jstr(&hex(&want.pixels)))]);
                return;
            }
            masked.push(m_got);
        }
        per_fill.push(masked);
    }
    if per_fill.len() == 3 && (per_fill[0] != per_fill[1] || per_fill[0] != per_fill[2]) {
        o.violation(viol("frame-pixels-depend-on-previous-buffer-contents", vec![("file", jstr(&b.name)), ("bytes", jstr(&hex(&b.bytes)))]));
    }
}

fn rng_off(rng: &mut Rng, max: u32) -> u32 { rng.range(0, max as u64) as u32 }

pub fn run(a: &Args) {
    let mut o = Out::new(&a.out);
    let mut rng = Rng::new(a.seed);
    let thorough = a.tier == "thorough";
    for k in 0..(if thorough { 40000 } else { 1500 }) {
        let (maxw, maxh) = if k % 5 == 0 { (12, 12) } else { (7, 6) };
        let b = valid_file(&mut rng, &GenOpts { maxw, maxh, anc: k % 4 == 0, animated: Some(true) });
        o.count(&format!("c{}d{}{}", b.spec.color, b.spec.depth, if b.spec.interlaced { "i" } else { "n" }));
        o.count(&format!("frames.{}{}", b.frames.len(), if b.frames[0].fctl.is_none() { ".separate-default" } else { "" }));
        o.distinct(&format!("{}-{}-{}-{}-{}", b.spec.color, b.spec.depth, b.spec.interlaced, b.frames.len(), b.frames.iter().map(|f| (f.w * 31 + f.h) as usize).sum::<usize>() % 64));
        check_apng(&mut o, &b, &mut rng);
    }
    // every rectangle inside a small canvas (exhaustive), interlaced and not
    for il in [false, true] {
        let (cw, ch) = if thorough { (6u32, 5u32) } else { (4, 3) };
        for fw in 1..=cw {
            for fh in 1..=ch {
                for fx in 0..=(cw - fw) {
                    for fy in 0..=(ch - fh) {
                        let b = crate::gen::apng_with_rect(&mut rng, cw, ch, fw, fh, fx, fy, il);
                        o.count("rectangles");
                        check_apng(&mut o, &b, &mut rng);
                    }
                }
            }
        }
    }
    // wide frames (rows of several KiB; every filter type occurs on first rows of frames and of Adam7 passes): the row kernels work in blocks
    // and with unrolled loops whose boundaries only show on long rows
    for k in 0..(if thorough { 240 } else { 30 }) {
        let cw = *rng.pick(&[400u32, 513, 1537, 1600, 2049, 3100]);
        let ch = rng.range(2, 3) as u32;
        let fw = cw - rng.range(0, 20) as u32;
        let fh = rng.range(1, ch as u64) as u32;
        let (fx, fy) = (rng_off(&mut rng, cw - fw), rng_off(&mut rng, ch - fh));
        let b = crate::gen::apng_with_rect(&mut rng, cw, ch, fw, fh, fx, fy, k % 3 == 0);
        o.count("wide-frames");
        check_apng(&mut o, &b, &mut rng);
    }
    // frame widths going down and up again under an allocation limit: the reader-owned row buffer is charged once at its largest size, so a
    // valid animation of alternating full-canvas and small frames must not run out of Limits::bytes however long it is
    for (cw, chh, bpp_color, limit, nframes) in [(2048u32, 3u32, 6u8, 40_000usize, 13u32), (1500, 2, 2, 30_000, 25), (4000, 1, 0, 24_000, if thorough { 60 } else { 21 })] {
        use crate::pngbuild::*;
        let bytes_pp = match bpp_color { 6 => 4usize, 2 => 3, _ => 1 };
        let mut chunks = vec![ihdr(cw, chh, 8, bpp_color, 0), actl_chunk(nframes, 0)];
        let mut seq = 0u32;
        let mut expect: Vec<(u32, u32, Vec<u8>)> = vec![];
        for f in 0..nframes {
            let (fw, fh) = if f % 2 == 0 { (cw, chh) } else { (1 + f % 7, 1) };
            let mut raw = vec![];
            let mut px = vec![];
            for r in 0..fh { raw.push(0u8); let row: Vec<u8> = (0..fw as usize * bytes_pp).map(|i| (i as u8).wrapping_mul(3).wrapping_add((f as u8).wrapping_mul(11)).wrapping_add(r as u8)).collect(); raw.extend(&row); px.extend(&row); }
            let z = zlib_flate2(&raw, 6);
            chunks.push(fctl_chunk(seq, fw, fh, 0, 0, 1, 10, 0, 0)); seq += 1;
            if f == 0 { chunks.push(Chunk::new(b"IDAT", z)); } else { chunks.push(fdat_chunk(seq, &z)); seq += 1; }
            expect.push((fw, fh, px));
        }
        chunks.push(Chunk::new(b"IEND", vec![]));
        let bytes = assemble(&chunks);
        let name = format!("alternating-widths-{}x{}-c{}-limit{}-x{}", cw, chh, bpp_color, limit, nframes);
        o.mark(&format!("apng under limit {}", name));
        let charged: std::cell::RefCell<Vec<usize>> = std::cell::RefCell::new(vec![]);
        let r = guarded(|| -> Result<usize, String> {
            let mut d = png::Decoder::new(std::io::Cursor::new(&bytes));
            d.set_limits(png::Limits { bytes: limit });
            d.set_transformations(png::Transformations::IDENTITY);
            let mut rd = d.read_info().map_err(|e| format!("read_info: {}", e))?;
            let mut buf = vec![0x5Au8; rd.output_buffer_size()];
            let r0 = rd.verif_limit_remaining();
            for (k, (fw, fh, px)) in expect.iter().enumerate() {
                let oi = rd.next_frame(&mut buf).map_err(|e| format!("frame {} of {} ({}x{}): {}", k, expect.len(), fw, fh, e))?;
                if (oi.width, oi.height) != (*fw, *fh) || buf[..oi.buffer_size()] != px[..] { return Err(format!("frame {}: wrong geometry or pixels", k)); }
                if k > 0 { charged.borrow_mut().push(r0 - rd.verif_limit_remaining()); }
            }
            match rd.next_frame(&mut buf) { Err(_) => Ok(expect.len()), Ok(_) => Err("a frame beyond the last one was delivered".into()) }
        });
        // the bytes charged for the shared row buffer after every frame vs Model/RowCharge.v (charged once, at the largest row so far)
        {
            let lens: Vec<String> = expect.iter().map(|(fw, _, _)| (*fw as usize * bytes_pp).to_string()).collect();
            let got: Vec<String> = charged.borrow().iter().map(|c| c.to_string()).collect();
            if got.len() + 1 == lens.len() {
                o.case(&format!("rowcharge {} {}", lens[0], lens[1..].join(",")), &got.join(","), &format!("rowcharge-{}", name), true);
            }
        }
        o.direct_checks += 1;
        o.count("alternating-widths-under-limit");
        match r {
            Ok(Ok(_)) => {}
            Ok(Err(e)) => o.violation(viol("valid-animation-not-delivered-under-the-limit", vec![("file", jstr(&name)), ("limit", limit.to_string()), ("why", jstr(&e))])),
            Err(m) => o.violation(viol("panic-decoding-valid-animation", vec![("file", jstr(&name)), ("panic", jstr(&m))])),
        }
    }
    // frames a little above 32 / 64 / 128 KiB of highly compressible data: the last rows of a frame are released only with the flush at the
    // chunk behind the frame's data (the frame has then to be counted all the same, and end-of-image reported after the last one)
    for (w, producer, nframes) in [(63u32, 0u8, 2u32), (63, 1, 3), (31, 0, 3), (15, 2, 2), (127, 0, 2)] {
        for h in crate::gen::heights_just_above_buffer_sizes(w as usize + 1, if thorough { 8 } else { 4 }) {
            let b = crate::gen::held_back_tail_file(w, h, nframes, producer, &[], &[]);
            o.count("held-back-tails");
            check_apng(&mut o, &b, &mut rng);
        }
    }
    // a long animation on a wide canvas: the row buffer is reused by all frames, so the allocation limit (default 64 MiB) must not run out after
    // 64 MiB / row-bytes frames (20000x1 RGBA8: 80000 bytes per frame; frame 838 used to fail with LimitsExceeded)
    {
        use crate::pngbuild::*;
        let (w, nframes) = (20000u32, if thorough { 1200u32 } else { 900u32 });
        let raw = vec![0u8; 1 + 4 * w as usize];
        let z = zlib_flate2(&raw, 9);
        let mut chunks = vec![ihdr(w, 1, 8, 6, 0), actl_chunk(nframes, 0)];
        let mut seq = 0u32;
        for f in 0..nframes {
            chunks.push(fctl_chunk(seq, w, 1, 0, 0, 1, 10, 0, 0)); seq += 1;
            if f == 0 { chunks.push(Chunk::new(b"IDAT", z.clone())); } else { chunks.push(fdat_chunk(seq, &z)); seq += 1; }
        }
        chunks.push(Chunk::new(b"IEND", vec![]));
        let bytes = assemble(&chunks);
        o.mark(&format!("long animation {}x1 RGBA8 x {} frames (file {} bytes)", w, nframes, bytes.len()));
        o.direct_checks += 1;
        o.count("long-animation");
        match open_reader(&bytes, &[0], Opts::default(), 0, None) {
            Ok(Ok(mut rd)) => {
                let mut delivered = 0u32;
                let mut end = String::new();
                for _ in 0..nframes + 2 {
                    let (r, px) = do_next_frame(&mut rd, 0);
                    if px.is_some() { delivered += 1; } else { end = r; break; }
                }
                if delivered != nframes || !end.starts_with("err:Param:PolledAfterEndOfImage") {
                    o.violation(viol("wrong-number-of-frames-delivered", vec![("file", jstr("long animation on a wide canvas")), ("delivered", delivered.to_string()), ("expected_frames", nframes.to_string()), ("end", jstr(&end))]));
                }
            }
            other => o.violation(viol("valid-apng-rejected", vec![("file", jstr("long animation on a wide canvas")), ("why", jstr(&format!("{:?}", other.map(|r| r.map(|_| "reader")))))])),
        }
    }
    o.mark("done");
    o.finish();
}

pub fn replay(_case: &str) -> String {
    "unknown-case".into()
}
