//! C07: every decoding call terminates after work bounded by input plus output; the decoder never spins.
//! Step counters on the low-level decoder and on the BufRead handed to the Reader, a progress marker for the
//! orchestrator's watchdog, and the L0 model correspondence on the (consumed, event) traces.
use crate::c04::{schedules, strip_d};
use crate::gen::*;
use crate::pngbuild::*;
use crate::readerrun::*;
use crate::streamrun::*;
use crate::util::*;

fn viol(kind: &str, detail: Vec<(&str, String)>) -> String {
    let mut kv = vec![("kind", jstr(kind)), ("class", jstr(kind))];
    kv.extend(detail);
    jobj(&kv)
}

/// the numerals of the bound fixed in DESIGN.md section 6 (C07): steps <= A*|input| + B*|output| + C
pub const A: u64 = 8;
pub const B: u64 = 2;
pub const C: u64 = 64;

fn total_output(text: &str) -> u64 {
    // sum of the F:len:hash entries
    text.split(';').filter_map(|e| e.strip_prefix("F:")).filter_map(|r| r.split(':').next()).filter_map(|n| n.parse::<u64>().ok()).sum()
}

fn l0_counters(o: &mut Out, name: &str, bytes: &[u8], sc: &[usize], opts: Opts) {
    l0_counters_lim(o, name, bytes, sc, opts, None)
}

fn l0_counters_lim(o: &mut Out, name: &str, bytes: &[u8], sc: &[usize], opts: Opts, limit: Option<usize>) {
    o.mark(&format!("l0 {} {} {:?} limit={:?} {}", opts.bits(), name, sc, limit, if bytes.len() < 5000 { hex(bytes) } else { format!("(len {})", bytes.len()) }));
    let pieces = split_sched(bytes, sc);
    let r = run_l0(&pieces, opts, limit);
    o.direct_checks += 1;
    let out = total_output(&r.text);
    let bound = A * bytes.len() as u64 + B * out + C;
    if r.text.contains("END=SPIN") || r.max_zero_progress >= 3 {
        o.violation(viol("update-returns-without-progress-repeatedly", vec![("file", jstr(name)), ("bytes", jstr(&hex(bytes))), ("schedule", jstr(&format!("{:?}", sc))),
            ("zero_progress_run", r.max_zero_progress.to_string())]));
    } else if r.calls > bound {
        o.violation(viol("update-calls-exceed-linear-bound", vec![("file", jstr(name)), ("bytes", jstr(&hex(bytes))), ("schedule", jstr(&format!("{:?}", sc))),
            ("calls", r.calls.to_string()), ("bound", bound.to_string())]));
    }
    if r.max_zero_progress > 0 {
        o.count("l0.single-zero-progress-return(diagnostic)");
    }
}

/// Reader-level: count fill_buf calls / zero-byte consumes while decoding by the given path
fn reader_counters(o: &mut Out, name: &str, bytes: &[u8], sc: &[usize], path: u32) {
    reader_counters_lim(o, name, bytes, sc, path, None)
}

fn reader_counters_lim(o: &mut Out, name: &str, bytes: &[u8], sc: &[usize], path: u32, limit: Option<usize>) {
    o.mark(&format!("reader path={} {} {:?} limit={:?} {}", path, name, sc, limit, if bytes.len() < 5000 { hex(bytes) } else { format!("(len {})", bytes.len()) }));
    let pr = PieceReader::new(bytes.to_vec(), sc);
    let (fills, zruns) = (pr.fills.clone(), pr.max_zero_run.clone());
    let mut produced: u64 = 0;
    let res = guarded(|| -> String {
        let mut rd = match open_decoder(pr, Opts::default(), 0, limit).read_info() {
            Ok(r) => r,
            Err(e) => return res_err(&e),
        };
        match path {
            0 => {
                for _ in 0..40 {
                    let (r, px) = do_next_frame(&mut rd, 0);
                    if let Some(p) = px {
                        produced += p.len() as u64;
                    } else {
                        return r;
                    }
                }
                "frames".into()
            }
            1 => {
                let mut rows = 0u64;
                loop {
                    match rd.next_row() {
                        Ok(Some(r)) => {
                            produced += r.data().len() as u64;
                            rows += 1;
                            if rows > 10_000_000 {
                                return "too-many-rows".into();
                            }
                        }
                        Ok(None) => return "rows-done".into(),
                        Err(e) => return res_err(&e),
                    }
                }
            }
            3 => {
                // a caller that carries on after errors: frame calls past the last frame present, then the frame-skipping call, then finish
                let mut log = vec![];
                for _ in 0..8 {
                    let (r, px) = do_next_frame(&mut rd, 0);
                    if let Some(p) = px { produced += p.len() as u64; }
                    log.push(r.chars().take(28).collect::<String>());
                }
                log.push(match rd.next_frame_info() { Ok(_) => "info-ok".to_string(), Err(e) => res_err(&e) });
                log.push(match rd.finish() { Ok(()) => "finish-ok".to_string(), Err(e) => res_err(&e) });
                log.push(match rd.finish() { Ok(()) => "finish-ok".to_string(), Err(e) => res_err(&e) });
                log.join(",")
            }
            _ => match rd.finish() {
                Ok(()) => "finish-ok".into(),
                Err(e) => res_err(&e),
            },
        }
    });
    o.direct_checks += 1;
    o.count(&format!("reader.path{}", path));
    let bound = A * bytes.len() as u64 + B * produced.max(1 << 16) + C;
    if zruns.get() > 3 {
        o.violation(viol("reader-consumes-zero-bytes-repeatedly", vec![("file", jstr(name)), ("bytes", jstr(&hex(bytes))), ("path", path.to_string()),
            ("zero_run", zruns.get().to_string()), ("result", jstr(&format!("{:?}", res)))]));
    } else if fills.get() > bound {
        o.violation(viol("reader-read-steps-exceed-linear-bound", vec![("file", jstr(name)), ("bytes", jstr(&hex(bytes))), ("path", path.to_string()),
            ("fills", fills.get().to_string()), ("bound", bound.to_string()), ("result", jstr(&format!("{:?}", res)))]));
    }
}

/// a reader that stalls (Err(WouldBlock) / Err(Interrupted) from fill_buf) when the bytes visible so far are used up: every public call must
/// RETURN (the I/O error) instead of polling the stalled reader again and again
fn stalled_reader_cases(o: &mut Out, rng: &mut Rng, thorough: bool) {
    for k in 0..(if thorough { 400 } else { 40 }) {
        let b = valid_file(rng, &GenOpts { maxw: 9, maxh: 7, anc: k % 2 == 0, animated: Some(k % 3 == 0) });
        let bytes = b.bytes.clone();
        for _ in 0..(if thorough { 8 } else { 4 }) {
            let cut = rng.range(0, bytes.len() as u64 - 1) as usize;
            let kind = 1 + (rng.below(4) == 0) as u8;   // mostly WouldBlock
            for path in 0..4u32 {
                o.mark(&format!("stalled reader kind={} cut={} path={} {} {}", kind, cut, path, b.name, hex(&bytes)));
                let pr = PieceReader::new(bytes.clone(), &[*rng.pick(&[0usize, 1, 7])]);
                pr.visible.set(cut);
                pr.stall.set(kind);
                let polls = pr.max_stall_polls.clone();
                let res = guarded(|| -> String {
                    let dec = open_decoder(pr, Opts::default(), 0, None);
                    if path == 3 {
                        let mut dec = dec;
                        return match dec.read_header_info() { Ok(_) => "header-ok".into(), Err(e) => res_err(&e) };
                    }
                    let mut rd = match dec.read_info() { Ok(r) => r, Err(e) => return res_err(&e) };
                    match path {
                        0 => { for _ in 0..6 { let (r, px) = do_next_frame(&mut rd, 0); if px.is_none() { return r; } } "frames".into() }
                        1 => { for _ in 0..200 { match rd.next_row() { Ok(Some(_)) => {}, Ok(None) => return "rows-done".into(), Err(e) => return res_err(&e) } } "rows".into() }
                        _ => match rd.finish() { Ok(()) => "finish-ok".into(), Err(e) => res_err(&e) },
                    }
                });
                o.direct_checks += 1;
                o.count("stalled-reader");
                let txt = match &res { Ok(t) => t.clone(), Err(m) => format!("PANIC {}", m) };
                if polls.get() > 8 || txt.contains("SPIN") {
                    o.violation(viol("decoder-keeps-polling-a-stalled-reader", vec![("file", jstr(&b.name)), ("bytes", jstr(&hex(&bytes))), ("visible", cut.to_string()), ("kind", kind.to_string()),
                        ("path", path.to_string()), ("consecutive_polls", polls.get().to_string()), ("result", jstr(&txt))]));
                }
            }
        }
    }
}

/// a highly compressible image: `h` rows of `w` gray8 zero pixels, one or many IDATs
fn bomb(w: u32, h: u32, rng: &mut Rng) -> Vec<u8> {
    let raw = vec![0u8; (w as usize + 1) * h as usize];
    let z = zlib_flate2(&raw, 9);
    let mut chunks = vec![ihdr(w, h, 8, 0, 0)];
    let n = rng.range(1, 3) as usize;
    for p in split_random(&z, n, rng, false) {
        chunks.push(Chunk::new(b"IDAT", p));
    }
    chunks.push(Chunk::new(b"IEND", vec![]));
    assemble(&chunks)
}

pub fn run(a: &Args) {
    let mut o = Out::new(&a.out);
    let mut rng = Rng::new(a.seed);
    let thorough = a.tier == "thorough";
    let mut files: Vec<(String, Vec<u8>)> = vec![];
    let g = GenOpts { maxw: 12, maxh: 9, anc: true, animated: None };
    for _ in 0..(if thorough { 600 } else { 80 }) {
        let b = valid_file(&mut rng, &g);
        files.push((b.name.clone(), b.bytes.clone()));
        for _ in 0..3 {
            let (l, m) = if rng.chance(1, 2) { mutate_structural(&b.bytes, &mut rng) } else { mutate_bytes(&b.bytes, &mut rng) };
            files.push((format!("{}~{}", b.name, l), m));
        }
    }
    // animations whose acTL announces more frames than the file holds, with bytes behind IEND: the calls a caller makes after the
    // "no more image data" error (more frame calls, the skipping call, finish) must all return - the decoder is at its end, the reader
    // keeps offering the same trailing bytes
    for k in 0..(if thorough { 60 } else { 12 }) {
        use crate::pngbuild::*;
        let b = valid_file(&mut rng, &GenOpts { maxw: 6, maxh: 5, anc: k % 2 == 0, animated: Some(true) });
        let mut chunks = parse(&b.bytes).unwrap();
        if let Some(i) = chunks.iter().position(|c| &c.ty == b"acTL") {
            let n = u32::from_be_bytes([chunks[i].data[0], chunks[i].data[1], chunks[i].data[2], chunks[i].data[3]]) + 1 + (k % 3) as u32;
            chunks[i].data[..4].copy_from_slice(&n.to_be_bytes());
            chunks[i].crc = None;
        }
        let mut bytes = assemble(&chunks);
        let trailing = rng.range(1, 40) as usize;
        bytes.extend(rng.bytes(trailing));
        let name = format!("{}+more-frames-announced+{}-trailing-bytes", b.name, trailing);
        for sc in [vec![0usize], vec![1], vec![rng.range(2, 64) as usize]] {
            reader_counters(&mut o, &name, &bytes, &sc, 3);
        }
        o.count("files.more-frames-announced-and-trailing-bytes");
    }
    // chunk bodies crossing the 32 KiB chunk buffer (PartialChunk / reserve path), zero-length chunks
    for &n in &[0usize, 1, 32767, 32768, 32769, 70000] {
        let mut chunks = vec![ihdr(2, 2, 8, 0, 0), Chunk::new(b"eXIf", vec![7u8; n]), Chunk::new(b"prVt", vec![9u8; n])];
        chunks.push(Chunk::new(b"IDAT", zlib_stored(&[0, 1, 2, 0, 3, 4], 3)));
        chunks.push(Chunk::new(b"IDAT", vec![]));
        chunks.push(Chunk::new(b"IEND", vec![]));
        files.push((format!("bigchunk{}", n), assemble(&chunks)));
    }
    // images whose IHDR-derived size is exactly a power-of-two multiple of the inflater's block size while the IDAT stream carries more data
    // than IHDR announces (the inflater's output limit and its buffer end then coincide)
    for (w, h, extra_rows) in [(127u32, 256u32, 256usize), (255, 128, 40), (511, 256, 300), (63, 512, 3)] {
        let raw: Vec<u8> = (0..(h as usize + extra_rows) * (w as usize + 1)).map(|i| if i % (w as usize + 1) == 0 { 0 } else { (i / 97) as u8 }).collect();
        let z = crate::pngbuild::zlib_flate2(&raw, 6);
        let mut chunks = vec![ihdr(w, h, 8, 0, 0)];
        for c in z.chunks(8000) { chunks.push(Chunk::new(b"IDAT", c.to_vec())); }
        chunks.push(Chunk::new(b"IEND", vec![]));
        files.push((format!("idat-longer-than-ihdr-{}x{}+{}", w, h, extra_rows), assemble(&chunks)));
    }
    for (n, b) in corpus_files(if thorough { 32768 } else { 3000 }, if thorough { 500 } else { 60 }, &mut rng) {
        files.push((n, b));
    }
    for (fi, (name, bytes)) in files.iter().enumerate() {
        let opts = if fi % 3 == 0 { Opts { ignore_crc: true, ..Opts::default() } } else { Opts::default() };
        let kind = if name.contains('~') { "mutated" } else { "valid-or-corpus" };
        o.count(&format!("files.{}", kind));
        o.distinct(&format!("{}-{}", kind, bytes.len()));
        let mut scs = vec![vec![0usize], vec![1], vec![2], vec![3], vec![5], vec![4096]];
        if bytes.len() < 5000 {
            scs.extend(schedules(bytes.len(), &mut rng, 4, false).into_iter().take(10));
        }
        for sc in &scs {
            l0_counters(&mut o, name, bytes, sc, opts);
        }
        for path in 0..3 {
            for sc in [vec![0usize], vec![1], vec![7]].iter() {
                reader_counters(&mut o, name, bytes, sc, path);
            }
        }
        // every truncation of small files: an input that ends must end the call, not hang it
        if bytes.len() <= 300 || (thorough && bytes.len() <= 1500) {
            for cut in 0..bytes.len() {
                reader_counters(&mut o, &format!("{}^{}", name, cut), &bytes[..cut], &[3], (cut % 3) as u32);
            }
        }
        // model correspondence on the trace (small files)
        if bytes.len() <= 600 && fi % 2 == 0 {
            let sc = &scs[fi % scs.len()];
            let pieces = split_sched(bytes, sc);
            let r = run_l0(&pieces, opts, None);
            let sizes = sc.iter().map(|x| x.to_string()).collect::<Vec<_>>().join(",");
            o.case(&format!("l0 {} {} {} {}", opts.bits(), 67108864u64, sizes, hex(bytes)), &strip_d(&r.text), &format!("{}-{}", kind, r.text.len() % 211), bytes.len() > 33);
        }
    }
    // chunk bodies larger than the allocation budget: LimitsExceeded, not an endless PartialChunk loop
    for &n in &[40000usize, 100000] {
        let mut chunks = vec![ihdr(2, 2, 8, 0, 0), Chunk::new(if n > 50000 { b"prVt" } else { b"eXIf" }, vec![5u8; n])];
        chunks.push(Chunk::new(b"IDAT", zlib_stored(&[0, 1, 2, 0, 3, 4], 3)));
        chunks.push(Chunk::new(b"IEND", vec![]));
        let f = assemble(&chunks);
        for &lim in &[1usize, 1000, 32768, 33000, 60000] {
            o.count("files.bigchunk-limited");
            for sc in [vec![0usize], vec![1], vec![4096]].iter() {
                l0_counters_lim(&mut o, &format!("bigchunk{}-limit{}", n, lim), &f, sc, Opts::default(), Some(lim));
                for path in 0..3 {
                    reader_counters_lim(&mut o, &format!("bigchunk{}-limit{}", n, lim), &f, sc, path, Some(lim));
                }
            }
        }
    }
    // bytes after the end of the zlib stream, in the same IDAT and in further IDAT chunks
    for variant in 0..4 {
        let z = zlib_stored(&[0, 1, 2, 0, 3, 4], 6);
        let mut chunks = vec![ihdr(2, 2, 8, 0, 0)];
        match variant {
            0 => { let mut d = z.clone(); d.extend_from_slice(&[9, 9, 9]); chunks.push(Chunk::new(b"IDAT", d)); }
            1 => { chunks.push(Chunk::new(b"IDAT", z.clone())); chunks.push(Chunk::new(b"IDAT", vec![1, 2, 3, 4, 5])); }
            2 => { chunks.push(Chunk::new(b"IDAT", z[..5].to_vec())); let mut d = z[5..].to_vec(); d.extend(vec![7u8; 300]); chunks.push(Chunk::new(b"IDAT", d)); chunks.push(Chunk::new(b"IDAT", vec![0u8; 40])); }
            _ => { chunks.push(actl_chunk(2, 0)); chunks.push(fctl_chunk(0, 2, 2, 0, 0, 1, 1, 0, 0)); chunks.push(Chunk::new(b"IDAT", z.clone())); chunks.push(fctl_chunk(1, 2, 2, 0, 0, 1, 1, 0, 0));
                   let mut d = z.clone(); d.extend_from_slice(&[1, 1, 1, 1]); chunks.push(fdat_chunk(2, &d)); chunks.push(fdat_chunk(3, &[8, 8])); }
        }
        chunks.push(Chunk::new(b"IEND", vec![]));
        let f = assemble(&chunks);
        o.count("files.data-after-zlib-end");
        for sc in [vec![0usize], vec![1], vec![3], vec![16]].iter() {
            l0_counters(&mut o, &format!("after-zlib-end-{}", variant), &f, sc, Opts::default());
            for path in 0..3 {
                reader_counters(&mut o, &format!("after-zlib-end-{}", variant), &f, sc, path);
            }
        }
    }
    // decompression bombs: work must stay linear in input + output
    let dims: &[(u32, u32)] = if thorough { &[(1000, 1000), (4000, 4000), (20000, 300), (300, 20000)] } else { &[(1000, 1000), (3000, 700)] };
    for &(w, h) in dims {
        let f = bomb(w, h, &mut rng);
        o.count("files.bomb");
        for sc in [vec![0usize], vec![1], vec![64]].iter() {
            l0_counters(&mut o, &format!("bomb{}x{}", w, h), &f, sc, Opts::default());
            for path in 0..3 {
                reader_counters(&mut o, &format!("bomb{}x{}", w, h), &f, sc, path);
            }
        }
    }
    o.mark("done");
    stalled_reader_cases(&mut o, &mut rng, thorough);
    o.finish();
}

pub fn replay(case: &str) -> String {
    crate::c04::replay(case)
}
