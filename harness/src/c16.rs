//! C16: metadata is reported faithfully; malformed optional chunks never break the image.
//! A reference writer puts arbitrary legal values of every understood ancillary chunk into generated files; the
//! decoded Info must expose exactly those values (expectations computed from the VALUES, independent of the crate).
use crate::c04::strip_d;
use crate::gen::*;
use crate::pngbuild::*;
use crate::readerrun::*;
use crate::streamrun::*;
use crate::util::*;

fn viol(kind: &str, detail: Vec<(&str, String)>) -> String {
    let mut kv = vec![("kind", jstr(kind)), ("class", jstr(kind))];
    kv.extend(detail);
    jobj(&kv)
}

fn u32v(rng: &mut Rng) -> u32 {
    match rng.below(7) {
        0 => 0,
        1 => 1,
        2 => 0x7fff_ffff,
        3 => 0x8000_0000,
        4 => 0xffff_ffff,
        5 => rng.below(200_000) as u32,
        _ => rng.next() as u32,
    }
}

fn h0(b: &[u8]) -> String {
    hex(b)
}

/// where a chunk of this kind may legally go: 0 = before PLTE, 1 = between PLTE and IDAT, 2 = anywhere (we also use "after IDAT")
struct Meta {
    chunk: Chunk,
    key: &'static str,
    expected: String,
    place: u8,
}

fn meta_case(kind: &str, s: &ImageSpec, plte_entries: usize, rng: &mut Rng, big: bool) -> Meta {
    let be = |v: u32| v.to_be_bytes().to_vec();
    match kind {
        "gAMA" => {
            let g = u32v(rng);
            Meta { chunk: Chunk::new(b"gAMA", be(g)), key: "gama", expected: g.to_string(), place: 0 }
        }
        "cHRM" => {
            let v: Vec<u32> = (0..8).map(|_| u32v(rng)).collect();
            Meta { chunk: Chunk::new(b"cHRM", v.iter().flat_map(|x| be(*x)).collect()), key: "chrm", expected: v.iter().map(|x| x.to_string()).collect::<Vec<_>>().join(":"), place: 0 }
        }
        "sRGB" => {
            let r = rng.below(4) as u8;
            Meta { chunk: Chunk::new(b"sRGB", vec![r]), key: "srgb", expected: r.to_string(), place: 0 }
        }
        "pHYs" => {
            let (x, y, u) = (u32v(rng), u32v(rng), rng.below(2) as u8);
            let mut d = be(x);
            d.extend(be(y));
            d.push(u);
            Meta { chunk: Chunk::new(b"pHYs", d), key: "phys", expected: format!("{}:{}:{}", x, y, u), place: 0 }
        }
        "sBIT" => {
            let n = match s.color { 0 => 1, 2 | 3 => 3, 4 => 2, _ => 4 };
            let maxd = if s.color == 3 { 8 } else { s.depth };
            let d: Vec<u8> = (0..n).map(|_| rng.range(1, maxd as u64) as u8).collect();
            Meta { expected: h0(&d), chunk: Chunk::new(b"sBIT", d), key: "sbit", place: 0 }
        }
        "bKGD" => {
            let n = match s.color { 3 => 1, 0 | 4 => 2, _ => 6 };
            let d: Vec<u8> = (0..n).map(|_| rng.byte()).collect();
            Meta { expected: h0(&d), chunk: Chunk::new(b"bKGD", d), key: "bkgd", place: 1 }
        }
        "tRNS" => {
            let d: Vec<u8> = match s.color {
                0 => vec![rng.byte(), rng.byte()],
                2 => (0..6).map(|_| rng.byte()).collect(),
                _ => {
                    let extra = if rng.chance(1, 4) { 3 } else { 0 };
                    let n = rng.range(1, plte_entries.max(1) as u64 + extra);
                    (0..n).map(|_| rng.byte()).collect()
                }
            };
            let exp = match (s.color, s.depth) {
                (0, 16) | (2, 16) | (3, _) => h0(&d),
                (0, _) => h0(&[d[1]]),
                _ => h0(&[d[1], d[3], d[5]]),
            };
            Meta { expected: exp, chunk: Chunk::new(b"tRNS", d), key: "trns", place: 1 }
        }
        "cICP" => {
            let d = vec![rng.byte(), rng.byte(), 0, rng.below(2) as u8];
            Meta { expected: format!("{}:{}:{}:{}", d[0], d[1], d[2], d[3]), chunk: Chunk::new(b"cICP", d), key: "cicp", place: 0 }
        }
        "mDCV" => {
            // r, g, b primaries then white point (u16 each, x then y), then max and min luminance (u32)
            let p: Vec<u16> = (0..8).map(|_| rng.next() as u16).collect();
            let (mx, mn) = (u32v(rng), u32v(rng));
            let mut d: Vec<u8> = p.iter().flat_map(|x| x.to_be_bytes()).collect();
            d.extend(be(mx));
            d.extend(be(mn));
            let sc = |i: usize| (p[i] as u32 * 2).to_string();
            let exp = format!("{}:{}:{}:{}:{}:{}:{}:{}:{}:{}", sc(6), sc(7), sc(0), sc(1), sc(2), sc(3), sc(4), sc(5), mx, mn);
            Meta { expected: exp, chunk: Chunk::new(b"mDCV", d), key: "mdcv", place: 0 }
        }
        "cLLI" => {
            let (a, b) = (u32v(rng), u32v(rng));
            let mut d = be(a);
            d.extend(be(b));
            Meta { expected: format!("{}:{}", a, b), chunk: Chunk::new(b"cLLI", d), key: "clli", place: 0 }
        }
        "eXIf" => {
            let n = if big { *rng.pick(&[32767usize, 32768, 32769, 70000]) } else { rng.range(1, 60) as usize };
            let d: Vec<u8> = (0..n).map(|_| rng.byte()).collect();
            Meta { expected: h0(&d), chunk: Chunk::new(b"eXIf", d), key: "exif", place: 2 }
        }
        "iCCP" => {
            let n = if big { *rng.pick(&[40000usize, 100000]) } else { *rng.pick(&[0usize, 1, 30, 400]) };
            let prof: Vec<u8> = (0..n).map(|i| if big { (i / 7) as u8 ^ rng.byte() } else { rng.byte() }).collect();
            let mut d = keyword(rng);
            d.push(0);
            d.push(0);
            let k = rng.below(7);
            d.extend(compress(&prof, k, rng));
            Meta { expected: h0(&prof), chunk: Chunk::new(b"iCCP", d), key: "iccp", place: 0 }
        }
        "tEXt" => {
            let kw = keyword(rng);
            let n = if big { 50000 } else { rng.below(40) as usize };
            let t = latin1_text(rng, n);
            let mut d = kw.clone();
            d.push(0);
            d.extend(&t);
            Meta { expected: format!("[0:{}:0:-:-:ok:{}]", h0(&kw), h0(&t)), chunk: Chunk::new(b"tEXt", d), key: "text", place: 2 }
        }
        "zTXt" => {
            let kw = keyword(rng);
            let n = if big { 100000 } else { rng.below(80) as usize };
            let t = latin1_text(rng, n);
            let mut d = kw.clone();
            d.push(0);
            d.push(0);
            let k = rng.below(7);
            d.extend(compress(&t, k, rng));
            Meta { expected: format!("[1:{}:1:-:-:ok:{}]", h0(&kw), h0(&t)), chunk: Chunk::new(b"zTXt", d), key: "text", place: 2 }
        }
        "iTXt" => {
            let kw = keyword(rng);
            let comp = rng.chance(1, 2);
            let lang: Vec<u8> = (0..rng.below(7)).map(|_| *rng.pick(b"abcxyz-ENde")).collect();
            let nt = rng.below(6) as usize;
            let trans = utf8_text(rng, nt);
            let n = if big { 20000 } else { rng.below(50) as usize };
            let t = utf8_text(rng, n);
            let mut d = kw.clone();
            d.push(0);
            d.push(comp as u8);
            d.push(0);
            d.extend(&lang);
            d.push(0);
            d.extend(&trans);
            d.push(0);
            if comp {
                let k = rng.below(7);
                d.extend(compress(&t, k, rng));
            } else {
                d.extend(&t);
            }
            Meta { expected: format!("[2:{}:{}:{}:{}:ok:{}]", h0(&kw), comp as u8, h0(&lang), h0(&trans), h0(&t)), chunk: Chunk::new(b"iTXt", d), key: "text", place: 2 }
        }
        _ => {
            let (f, p) = (rng.range(1, 9) as u32, u32v(rng));
            let mut d = be(f);
            d.extend(be(p));
            Meta { expected: format!("{}:{}", f, p), chunk: Chunk::new(b"acTL", d), key: "actl", place: 1 }
        }
    }
}

// (acTL / fcTL values are checked on well-formed animations by C09)
const KINDS: [&str; 15] = ["gAMA", "cHRM", "sRGB", "pHYs", "sBIT", "bKGD", "tRNS", "cICP", "mDCV", "cLLI", "eXIf", "iCCP", "tEXt", "zTXt", "iTXt"];

/// insert `c` into the chunk list of a plain file at a legal place for `place`; `after_idat` puts "anywhere" kinds behind the image data
fn insert_at(chunks: &[Chunk], c: &[Chunk], place: u8, after_idat: bool) -> Vec<Chunk> {
    let plte = chunks.iter().position(|x| &x.ty == b"PLTE");
    let idat = chunks.iter().position(|x| &x.ty == b"IDAT").unwrap();
    let last_idat = chunks.iter().rposition(|x| &x.ty == b"IDAT").unwrap();
    let at = match place {
        0 => plte.unwrap_or(idat),
        1 => idat,
        _ => if after_idat { last_idat + 1 } else { idat },
    };
    let mut v = chunks[..at].to_vec();
    v.extend_from_slice(c);
    v.extend_from_slice(&chunks[at..]);
    v
}

fn applies(kind: &str, s: &ImageSpec) -> bool {
    match kind {
        "tRNS" => s.color == 0 || s.color == 2 || s.color == 3,
        _ => true,
    }
}

fn srgb_accessors(bytes: &[u8]) -> String {
    match open_reader(bytes, &[0], Opts::default(), 0, None) {
        Ok(Ok(rd)) => {
            let i = rd.info();
            let g = i.gamma().map(|g| g.into_scaled().to_string()).unwrap_or_else(|| "none".into());
            let c = i
                .chromaticities()
                .map(|c| format!("{}:{}:{}:{}:{}:{}:{}:{}", c.white.0.into_scaled(), c.white.1.into_scaled(), c.red.0.into_scaled(), c.red.1.into_scaled(),
                    c.green.0.into_scaled(), c.green.1.into_scaled(), c.blue.0.into_scaled(), c.blue.1.into_scaled()))
                .unwrap_or_else(|| "none".into());
            format!("gamma={} chroma={}", g, c)
        }
        Ok(Err(e)) => e,
        Err(m) => format!("PANIC {}", m),
    }
}

pub fn run(a: &Args) {
    let mut o = Out::new(&a.out);
    let mut rng = Rng::new(a.seed);
    let thorough = a.tier == "thorough";
    let rounds = if thorough { 1200 } else { 90 };
    for round in 0..rounds {
        let b = valid_file(&mut rng, &GenOpts { maxw: 6, maxh: 5, anc: false, animated: Some(false) });
        let chunks = parse(&b.bytes).unwrap();
        let plte_entries = b.palette.as_ref().map(|p| p.len() / 3).unwrap_or(0);
        let plain = summarize(&b.bytes, &[0], Opts::default(), 0);
        if plain.ri != "ok" || !plain.frame_ok(0) || plain.fin != "ok" {
            o.notes.push(format!("base file rejected (not counted): {}", b.name));
            continue;
        }
        // (a) every kind, one at a time, arbitrary legal values: exposed exactly; pixels untouched
        for kind in KINDS.iter() {
            if !applies(kind, &b.spec) {
                continue;
            }
            let big = round % 15 == 7 && ["eXIf", "iCCP", "tEXt", "zTXt", "iTXt"].contains(kind);
            let m = meta_case(kind, &b.spec, plte_entries, &mut rng, big);
            let after = rng.chance(1, 2);
            let file = assemble(&insert_at(&chunks, &[m.chunk.clone()], m.place, after));
            o.mark(&format!("value {} {} {}", b.name, kind, if file.len() < 4000 { hex(&file) } else { format!("(len {})", file.len()) }));
            let s = summarize(&file, &[0], Opts::default(), 0);
            o.direct_checks += 1;
            o.count(&format!("value.{}{}", kind, if big { ".big" } else { "" }));
            o.distinct(&format!("{}-{}-{}-{}", kind, b.spec.color, after, m.chunk.data.len().min(40)));
            let got = info_field(&s.info, m.key).to_string();
            let pixels_same = s.frames.first() == plain.frames.first() && s.ri == "ok" && s.fin == "ok";
            // tRNS does not change identity-decoded pixels either
            if got != m.expected || !pixels_same {
                o.violation(viol("metadata-not-reported-faithfully", vec![("file", jstr(&b.name)), ("chunk", jstr(kind)), ("placed_after_idat", after.to_string()),
                    ("payload", jstr(&if m.chunk.data.len() < 300 { hex(&m.chunk.data) } else { format!("(len {})", m.chunk.data.len()) })),
                    ("expected", jstr(&m.expected.chars().take(400).collect::<String>())), ("reported", jstr(&got.chars().take(400).collect::<String>())),
                    ("bytes", jstr(&if file.len() < 3000 { hex(&file) } else { format!("(len {})", file.len()) })), ("result", jstr(&s.pixels_text()))]));
            }
            if file.len() <= 500 && rng.chance(1, 3) {
                o.case(&format!("l0 {} {} 0 {}", Opts::default().bits(), 67108864u64, hex(&file)), &strip_d(&run_l0(&[file.clone()], Opts::default(), None).text), &format!("value-{}", kind), true);
            }
            // (b) a second instance with other values: the first occurrence is kept
            if *kind != "tEXt" && *kind != "zTXt" && *kind != "iTXt" && !big {
                let m2 = meta_case(kind, &b.spec, plte_entries, &mut rng, false);
                let file2 = assemble(&insert_at(&chunks, &[m.chunk.clone(), m2.chunk.clone()], m.place, after));
                let s2 = summarize(&file2, &[0], Opts::default(), 0);
                o.direct_checks += 1;
                o.count(&format!("duplicate.{}", kind));
                let got2 = info_field(&s2.info, m.key).to_string();
                if got2 != m.expected || s2.frames.first() != plain.frames.first() || s2.ri != "ok" {
                    o.violation(viol("later-duplicate-not-ignored", vec![("file", jstr(&b.name)), ("chunk", jstr(kind)), ("first", jstr(&m.expected)), ("second", jstr(&m2.expected)),
                        ("reported", jstr(&got2)), ("bytes", jstr(&hex(&file2))), ("result", jstr(&s2.pixels_text()))]));
                }
            }
        }
        // (e) two kinds side by side, in both orders: each value is exposed whatever else is there (one chunk's parser must not touch another
        //     chunk's value); iCCP + sRGB always, other pairs sampled
        {
            let mut pairs: Vec<(&str, &str)> = vec![("iCCP", "sRGB"), ("gAMA", "iCCP"), ("cHRM", "iCCP"), ("cICP", "iCCP")];
            for _ in 0..3 { let a = *rng.pick(&KINDS); let b2 = *rng.pick(&KINDS); if a != b2 { pairs.push((a, b2)); } }
            for (ka, kb) in pairs {
                if !applies(ka, &b.spec) || !applies(kb, &b.spec) { continue; }
                if ["tEXt", "zTXt", "iTXt"].contains(&ka) && ["tEXt", "zTXt", "iTXt"].contains(&kb) { continue; }
                let ma = meta_case(ka, &b.spec, plte_entries, &mut rng, false);
                let mb = meta_case(kb, &b.spec, plte_entries, &mut rng, false);
                for swap in [false, true] {
                    let (first, second) = if swap { (&mb, &ma) } else { (&ma, &mb) };
                    let file = if first.place == second.place { assemble(&insert_at(&chunks, &[first.chunk.clone(), second.chunk.clone()], first.place, false)) }
                               else { assemble(&insert_at(&insert_at(&chunks, &[first.chunk.clone()], first.place, false), &[second.chunk.clone()], second.place, false)) };
                    o.mark(&format!("pair {} {}+{} swap={} {}", b.name, ka, kb, swap, if file.len() < 4000 { hex(&file) } else { format!("(len {})", file.len()) }));
                    let s = summarize(&file, &[0], Opts::default(), 0);
                    o.direct_checks += 1;
                    o.count("pairs");
                    let (ga, gb) = (info_field(&s.info, ma.key).to_string(), info_field(&s.info, mb.key).to_string());
                    if ga != ma.expected || gb != mb.expected || s.ri != "ok" || s.frames.first() != plain.frames.first() {
                        o.violation(viol("metadata-not-reported-faithfully", vec![("file", jstr(&b.name)), ("chunk", jstr(&format!("{} next to {}", ka, kb))), ("order_swapped", swap.to_string()),
                            ("expected", jstr(&format!("{} | {}", ma.expected, mb.expected).chars().take(400).collect::<String>())), ("reported", jstr(&format!("{} | {}", ga, gb).chars().take(400).collect::<String>())),
                            ("bytes", jstr(&if file.len() < 3000 { hex(&file) } else { format!("(len {})", file.len()) }))]));
                    }
                    if file.len() <= 500 && rng.chance(1, 4) {
                        o.case(&format!("l0 {} {} 0 {}", Opts::default().bits(), 67108864u64, hex(&file)), &strip_d(&run_l0(&[file.clone()], Opts::default(), None).text), &format!("pair-{}-{}", ka, kb), true);
                    }
                }
            }
        }
        // (c) sRGB overrides the reported gamma and chromaticities
        {
            let g = meta_case("gAMA", &b.spec, plte_entries, &mut rng, false);
            let c = meta_case("cHRM", &b.spec, plte_entries, &mut rng, false);
            let r = meta_case("sRGB", &b.spec, plte_entries, &mut rng, false);
            let mut order = vec![g.chunk.clone(), c.chunk.clone(), r.chunk.clone()];
            let k = rng.below(3) as usize;
            order.swap(0, k);
            let with = assemble(&insert_at(&chunks, &order, 0, false));
            let without = assemble(&insert_at(&chunks, &[g.chunk.clone(), c.chunk.clone()], 0, false));
            let (aw, ao) = (srgb_accessors(&with), srgb_accessors(&without));
            o.direct_checks += 2;
            o.count("srgb-override");
            let want_w = "gamma=45455 chroma=31270:32900:64000:33000:30000:60000:15000:6000";
            let want_o = format!("gamma={} chroma={}", g.expected, c.expected);
            if aw != want_w || ao != want_o {
                o.violation(viol("srgb-override-of-gamma-and-chromaticities-wrong", vec![("file", jstr(&b.name)), ("with_srgb", jstr(&aw)), ("expected_with", jstr(want_w)),
                    ("without_srgb", jstr(&ao)), ("expected_without", jstr(&want_o)), ("bytes", jstr(&hex(&with)))]));
            }
        }
        // (d) malformed or misplaced instances of benign kinds, and unknown ancillary chunks: as if absent
        for _ in 0..6 {
            let (label, bad, pos_after): (String, Chunk, bool) = match rng.below(9) {
                0 => ("gAMA-short".into(), Chunk::new(b"gAMA", vec![1, 2, 3][..rng.below(4) as usize].to_vec()), false),
                1 => ("cHRM-short".into(), Chunk::new(b"cHRM", (0..rng.below(32)).map(|_| rng.byte()).collect()), false),
                2 => ("sRGB-bad".into(), Chunk::new(b"sRGB", if rng.chance(1, 2) { vec![] } else { vec![rng.range(4, 255) as u8] }), false),
                3 => ("pHYs-bad".into(), { let mut m = meta_case("pHYs", &b.spec, plte_entries, &mut rng, false).chunk; if rng.chance(1, 2) { m.data[8] = rng.range(2, 255) as u8; } else { m.data.truncate(rng.below(9) as usize); } m }, false),
                4 => ("sBIT-bad".into(), { let mut m = meta_case("sBIT", &b.spec, plte_entries, &mut rng, false).chunk; if rng.chance(1, 2) { m.data.push(1); } else { m.data[0] = *rng.pick(&[0u8, 17, 255]); } m }, false),
                5 => ("tRNS-bad".into(), Chunk::new(b"tRNS", match b.spec.color { 0 => vec![7], 2 => vec![1, 2, 3, 4, 5], _ => vec![] }), false),
                6 => ("misplaced-after-IDAT".into(), meta_case(*rng.pick(&["gAMA", "cHRM", "sRGB", "pHYs", "sBIT", "iCCP"]), &b.spec, plte_entries, &mut rng, false).chunk, true),
                7 => ("iCCP-garbage".into(), Chunk::new(b"iCCP", (0..rng.below(40)).map(|_| rng.byte()).collect()), false),
                _ => ("unknown-ancillary".into(), { let n = if round % 11 == 3 { 40000 } else { rng.below(30) as usize }; legal_chunk("unknown", &b.spec, &mut rng, 0).clone_with_len(n, &mut rng) }, rng.chance(1, 2)),
            };
            // tRNS for colour types 4/6 is "bad" as such; indexed tRNS before PLTE is misplaced
            if label == "tRNS-bad" && b.spec.color == 3 {
                continue;
            }
            let with = if pos_after { assemble(&insert_at(&chunks, &[bad.clone()], 2, true)) } else { assemble(&insert_at(&chunks, &[bad.clone()], if label == "tRNS-bad" { 1 } else { 0 }, false)) };
            o.mark(&format!("benign {} {} {}", b.name, label, if with.len() < 4000 { hex(&with) } else { "(long)".into() }));
            let s = summarize(&with, &[0], Opts::default(), 0);
            o.direct_checks += 1;
            o.count(&format!("harmless.{}", label));
            o.distinct(&format!("h-{}-{}-{}", label, b.spec.color, bad.data.len().min(33)));
            if s.text() != plain.text() {
                o.violation(viol("malformed-optional-chunk-affects-result", vec![("file", jstr(&b.name)), ("inserted", jstr(&label)), ("payload", jstr(&hex(&bad.data[..bad.data.len().min(64)]))),
                    ("bytes", jstr(&if with.len() < 3000 { hex(&with) } else { "(long)".into() })), ("with", jstr(&s.text())), ("without", jstr(&plain.text()))]));
            }
            if with.len() <= 400 && rng.chance(1, 3) {
                o.case(&format!("l0 {} {} 0 {}", Opts::default().bits(), 67108864u64, hex(&with)), &strip_d(&run_l0(&[with.clone()], Opts::default(), None).text), &format!("harmless-{}", label), true);
            }
        }
    }
    o.mark("done");
    o.finish();
}

trait CloneWithLen {
    fn clone_with_len(&self, n: usize, rng: &mut Rng) -> Chunk;
}
impl CloneWithLen for Chunk {
    fn clone_with_len(&self, n: usize, rng: &mut Rng) -> Chunk {
        Chunk::new(&self.ty, (0..n).map(|_| rng.byte()).collect())
    }
}

pub fn replay(case: &str) -> String {
    crate::c04::replay(case)
}
