//! C12: everything the encoder emits (for op sequences that supply exactly the declared images) is accepted by an
//! independent strict validator.  Also the shared encoder driver used by C03 / C17 / C19.
use crate::refimpl::*;
use crate::util::*;
use crate::validator::*;
use std::cell::RefCell;
use std::io::Write;
use std::rc::Rc;

fn viol(kind: &str, class: &str, detail: Vec<(&str, String)>) -> String {
    let mut kv = vec![("kind", jstr(kind)), ("class", jstr(class))];
    kv.extend(detail);
    jobj(&kv)
}

/// A sink that records what it accepted, may accept only short writes, and may start failing at the k-th call.
#[derive(Default)]
pub struct SinkState {
    pub accepted: Vec<u8>,
    pub calls: usize,
    pub fail_from: Option<usize>, // index of the first write/flush call that fails
    pub fail_once: bool,
    pub short: usize, // 0 = accept everything, else accept at most this many bytes per call
    pub failures: usize,
    /// length of `accepted` when the (first) failure was injected
    pub accepted_at_failure: Option<usize>,
    /// length of `accepted` at the start of every call (write or flush)
    pub call_log: Vec<usize>,
}

#[derive(Clone)]
pub struct Sink(pub Rc<RefCell<SinkState>>);

impl Sink {
    pub fn new(short: usize, fail_from: Option<usize>, fail_once: bool) -> Sink {
        Sink(Rc::new(RefCell::new(SinkState { short, fail_from, fail_once, ..Default::default() })))
    }
    fn should_fail(s: &mut SinkState) -> bool {
        let k = s.calls;
        s.calls += 1;
        let l = s.accepted.len();
        s.call_log.push(l);
        match s.fail_from {
            Some(f) if (s.fail_once && k == f) || (!s.fail_once && k >= f) => {
                s.failures += 1;
                if s.accepted_at_failure.is_none() { s.accepted_at_failure = Some(s.accepted.len()); }
                true
            }
            _ => false,
        }
    }
}

impl Write for Sink {
    fn write(&mut self, buf: &[u8]) -> std::io::Result<usize> {
        let mut s = self.0.borrow_mut();
        if Sink::should_fail(&mut s) {
            return Err(std::io::Error::new(std::io::ErrorKind::Other, "sink failure"));
        }
        let n = if s.short == 0 { buf.len() } else { buf.len().min(s.short) };
        s.accepted.extend_from_slice(&buf[..n]);
        Ok(n)
    }
    fn flush(&mut self) -> std::io::Result<()> {
        let mut s = self.0.borrow_mut();
        if Sink::should_fail(&mut s) {
            return Err(std::io::Error::new(std::io::ErrorKind::Other, "sink failure on flush"));
        }
        Ok(())
    }
}

#[derive(Clone, Debug)]
pub enum WOp {
    Image { stream: Option<usize>, parts: Vec<usize> }, // whole-image call, or stream writer with buffer size + write partition
    FrameDim(u32, u32),
    FramePos(u32, u32),
    ResetDim,
    ResetPos,
    Delay(u16, u16),
    Blend(u8),
    Dispose(u8),
    RawChunk(Vec<u8>),
    Text(u8),
    Filter(u8),
    /// consume the Writer: into_stream_writer_with_size, write the image in parts, StreamWriter::finish (must be the last op)
    IntoStream { size: usize, parts: Vec<usize>, fraction: u8 },
}

#[derive(Clone, Debug)]
pub struct WCfg {
    pub w: u32,
    pub h: u32,
    pub color: u8,
    pub depth: u8,
    pub animated: Option<(u32, u32)>,
    pub sep: bool,
    pub compression: u8,
    pub filter: u8,
    pub validate: bool,
    pub palette: Option<Vec<u8>>,
}

pub fn color_of(c: u8) -> png::ColorType {
    match c { 0 => png::ColorType::Grayscale, 2 => png::ColorType::Rgb, 3 => png::ColorType::Indexed, 4 => png::ColorType::GrayscaleAlpha, _ => png::ColorType::Rgba }
}
pub fn depth_of(d: u8) -> png::BitDepth {
    match d { 1 => png::BitDepth::One, 2 => png::BitDepth::Two, 4 => png::BitDepth::Four, 8 => png::BitDepth::Eight, _ => png::BitDepth::Sixteen }
}
pub fn filter_of(f: u8) -> png::Filter {
    match f { 0 => png::Filter::NoFilter, 1 => png::Filter::Sub, 2 => png::Filter::Up, 3 => png::Filter::Avg, 4 => png::Filter::Paeth, _ => png::Filter::Adaptive }
}
pub fn set_compression<W: Write>(e: &mut png::Encoder<W>, k: u8) {
    match k {
        0 => e.set_deflate_compression(png::DeflateCompression::NoCompression),
        1 => e.set_deflate_compression(png::DeflateCompression::FdeflateUltraFast),
        2..=11 => e.set_deflate_compression(png::DeflateCompression::Level(k - 2)),
        12 => e.set_compression(png::Compression::NoCompression),
        13 => e.set_compression(png::Compression::Fastest),
        14 => e.set_compression(png::Compression::Fast),
        15 => e.set_compression(png::Compression::Balanced),
        _ => e.set_compression(png::Compression::High),
    }
}

pub struct WRun {
    pub results: Vec<String>,
    pub finish: String,
    pub panicked: Option<String>,
    /// pixel bytes supplied per image (successfully written ones), with their dimensions
    pub images: Vec<(u32, u32, Vec<u8>)>,
    pub errors_before_finish: usize,
    /// frame-parameter setters that returned Ok for a rectangle outside the canvas / of zero size (C19: invalid parameters are errors)
    pub illegal_accepted: Vec<String>,
    /// refused frame-parameter setters (counted in errors_before_finish too): a refused setter changes nothing, the history still supplies its images
    pub setter_refusals: usize,
}

fn enc_err(e: &png::EncodingError) -> String {
    let d = format!("{:?}", e);
    let head: String = d.chars().take_while(|c| c.is_alphanumeric()).collect();
    let inner = d.split("inner: ").nth(1).map(|r| r.chars().take_while(|c| c.is_alphanumeric() || *c == '_').collect::<String>()).unwrap_or_default();
    format!("err:{}:{}", head, inner)
}

/// Execute a writer history against `sink`.  `finish`: call Writer::finish (else drop).
pub fn run_writer(cfg: &WCfg, ops: &[WOp], sink: Sink, finish: bool, rng: &mut Rng) -> WRun {
    let mut run = WRun { results: vec![], finish: "-".into(), panicked: None, images: vec![], errors_before_finish: 0, illegal_accepted: vec![], setter_refusals: 0 };
    let bits = samples(cfg.color) * cfg.depth as usize;
    let r = guarded(|| {
        let mut e = png::Encoder::new(sink.clone(), cfg.w, cfg.h);
        e.set_color(color_of(cfg.color));
        e.set_depth(depth_of(cfg.depth));
        if let Some(p) = &cfg.palette {
            e.set_palette(p.clone());
        }
        set_compression(&mut e, cfg.compression);
        e.set_filter(filter_of(cfg.filter));
        if let Some((nf, np)) = cfg.animated {
            if let Err(er) = e.set_animated(nf, np) {
                run.results.push(format!("set_animated {}", enc_err(&er)));
            }
            if cfg.sep {
                let _ = e.set_sep_def_img(true);
            }
        }
        e.validate_sequence(cfg.validate);
        let mut w = match e.write_header() {
            Ok(w) => w,
            Err(er) => {
                run.results.push(format!("write_header {}", enc_err(&er)));
                run.errors_before_finish += 1;
                return;
            }
        };
        run.results.push("write_header ok".into());
        let (mut fw, mut fh) = (cfg.w, cfg.h);
        let (mut fx, mut fy) = (0u32, 0u32);
        let mut first_started = false;   // an image has been written, or a stream writer for one has been created
        let mut w = Some(w);
        for op in ops {
            if let WOp::IntoStream { size, parts, fraction } = op {
                let n = ((fw as usize * bits + 7) / 8).saturating_mul(fh as usize);
                let data = if n > (1 << 22) { vec![] } else { rng.bytes(n) };
                let n = data.len();
                let upto = n * (*fraction as usize) / 4;
                let res = match w.take().unwrap().into_stream_writer_with_size(*size) {
                    Err(er) => enc_err(&er),
                    Ok(mut sw) => {
                        let mut pos = 0;
                        let mut pi = 0;
                        let mut err = None;
                        while pos < upto {
                            let want = if parts.is_empty() { upto } else { parts[pi % parts.len()].max(1) };
                            pi += 1;
                            let end = (pos + want).min(upto);
                            match sw.write(&data[pos..end]) {
                                Ok(0) => { err = Some("err:write-returned-0".to_string()); break; }
                                Ok(k) => pos += k,
                                Err(er) => { err = Some(format!("err:Io:{}", er.to_string().chars().take(40).collect::<String>())); break; }
                            }
                        }
                        match err {
                            Some(er) => er,
                            None => match sw.finish() { Ok(()) => { if upto == n { run.images.push((fw, fh, data)); } "ok".into() } Err(er) => enc_err(&er) },
                        }
                    }
                };
                if res.starts_with("err") { run.errors_before_finish += 1; }
                run.results.push(format!("into_stream {}", res));
                run.finish = if res == "ok" { "ok".into() } else { res };
                return;
            }
            let w = w.as_mut().unwrap();
            let res: String = match op {
                WOp::FrameDim(a, b) => match w.set_frame_dimension(*a, *b) {
                    Ok(()) => {
                        if *a == 0 || *b == 0 || fx as u64 + *a as u64 > cfg.w as u64 || fy as u64 + *b as u64 > cfg.h as u64 {
                            run.illegal_accepted.push(format!("set_frame_dimension({}, {}) at offset ({}, {}) on a {}x{} canvas returned Ok", a, b, fx, fy, cfg.w, cfg.h));
                        }
                        // the first image of the stream is the IDAT image: it has to cover the canvas
                        if !first_started && (*a != cfg.w || *b != cfg.h) {
                            run.illegal_accepted.push(format!("set_frame_dimension({}, {}) before the first image of a {}x{} canvas returned Ok (the IDAT image must cover the canvas)", a, b, cfg.w, cfg.h));
                        }
                        fw = *a; fh = *b; "ok".into()
                    }
                    Err(er) => enc_err(&er),
                },
                WOp::FramePos(a, b) => match w.set_frame_position(*a, *b) {
                    Ok(()) => {
                        if *a as u64 + fw as u64 > cfg.w as u64 || *b as u64 + fh as u64 > cfg.h as u64 {
                            run.illegal_accepted.push(format!("set_frame_position({}, {}) for a {}x{} frame on a {}x{} canvas returned Ok", a, b, fw, fh, cfg.w, cfg.h));
                        }
                        if !first_started && (*a != 0 || *b != 0) {
                            run.illegal_accepted.push(format!("set_frame_position({}, {}) before the first image returned Ok (the IDAT image must cover the canvas)", a, b));
                        }
                        fx = *a; fy = *b; "ok".into()
                    }
                    Err(er) => enc_err(&er),
                },
                WOp::ResetDim => match w.reset_frame_dimension() { Ok(()) => { fw = cfg.w - fx.min(cfg.w); fh = cfg.h - fy.min(cfg.h); "ok".into() } Err(er) => enc_err(&er) },
                WOp::ResetPos => match w.reset_frame_position() { Ok(()) => { fx = 0; fy = 0; "ok".into() } Err(er) => enc_err(&er) },
                WOp::Delay(a, b) => match w.set_frame_delay(*a, *b) { Ok(()) => "ok".into(), Err(er) => enc_err(&er) },
                WOp::Blend(b) => match w.set_blend_op(if *b == 0 { png::BlendOp::Source } else { png::BlendOp::Over }) { Ok(()) => "ok".into(), Err(er) => enc_err(&er) },
                WOp::Dispose(b) => match w.set_dispose_op(match b { 0 => png::DisposeOp::None, 1 => png::DisposeOp::Background, _ => png::DisposeOp::Previous }) { Ok(()) => "ok".into(), Err(er) => enc_err(&er) },
                WOp::Filter(f) => { w.set_filter(filter_of(*f)); "ok".into() }
                WOp::RawChunk(d) => match w.write_chunk(png::chunk::ChunkType(*b"prVt"), d) { Ok(()) => "ok".into(), Err(er) => enc_err(&er) },
                WOp::Text(k) => {
                    let r = match k {
                        0 => w.write_text_chunk(&png::text_metadata::TEXtChunk::new("Title", "some text")),
                        1 => w.write_text_chunk(&png::text_metadata::ZTXtChunk::new("Comment", "compressed compressed compressed")),
                        _ => w.write_text_chunk(&png::text_metadata::ITXtChunk::new("Author", "übung")),
                    };
                    match r { Ok(()) => "ok".into(), Err(er) => enc_err(&er) }
                }
                WOp::IntoStream { .. } => unreachable!(),
                WOp::Image { stream, parts } => {
                    let n = ((fw as usize * bits + 7) / 8).saturating_mul(fh as usize);
                    // absurd sizes: offer an empty buffer (the call must refuse it, not overflow)
                    let data = if n > (1 << 22) { vec![] } else { rng.bytes(n) };
                    let r = match stream {
                        None => { let r = w.write_image_data(&data).map_err(|er| enc_err(&er)); if r.is_ok() { first_started = true; } r }
                        Some(sz) => match w.stream_writer_with_size(*sz) {
                            Err(er) => Err(enc_err(&er)),
                            Ok(mut sw) => {
                                first_started = true;
                                let mut pos = 0;
                                let mut pi = 0;
                                let mut err = None;
                                while pos < data.len() {
                                    let want = if parts.is_empty() { data.len() } else { parts[pi % parts.len()].max(1) };
                                    pi += 1;
                                    let end = (pos + want).min(data.len());
                                    match sw.write(&data[pos..end]) {
                                        Ok(0) => { err = Some("err:write-returned-0".to_string()); break; }
                                        Ok(k) => pos += k,
                                        Err(er) => { err = Some(format!("err:Io:{}", er.to_string().chars().take(40).collect::<String>())); break; }
                                    }
                                }
                                match err {
                                    Some(er) => Err(er),
                                    None => sw.finish().map_err(|er| enc_err(&er)),
                                }
                            }
                        },
                    };
                    match r {
                        Ok(()) => { run.images.push((fw, fh, data)); "ok".into() }
                        Err(er) => er,
                    }
                }
            };
            if res.starts_with("err") {
                run.errors_before_finish += 1;
                if matches!(op, WOp::FrameDim(..) | WOp::FramePos(..)) { run.setter_refusals += 1; }
            }
            run.results.push(format!("{:?} {}", std::mem::discriminant(op), res).replace("Discriminant", "op"));
        }
        let w = w.take().unwrap();
        if finish {
            run.finish = match w.finish() { Ok(()) => "ok".into(), Err(er) => enc_err(&er) };
        } else {
            drop(w);
            run.finish = "dropped".into();
        }
    });
    if let Err(m) = r {
        run.panicked = Some(m);
    }
    run
}

pub fn random_cfg(rng: &mut Rng, animated: Option<bool>) -> WCfg {
    let (color, depth) = *rng.pick(&COLOR_DEPTHS);
    let anim = animated.unwrap_or_else(|| rng.chance(1, 2));
    WCfg {
        w: rng.range(1, 8) as u32, h: rng.range(1, 7) as u32, color, depth,
        animated: if anim { Some((rng.range(1, 4) as u32, rng.below(3) as u32)) } else { None },
        sep: anim && rng.chance(1, 3), compression: rng.below(17) as u8, filter: rng.below(6) as u8, validate: false,
        palette: if color == 3 { Some((0..3 * (1usize << depth.min(8))).map(|_| rng.byte()).collect()) } else { None },
    }
}

/// ops that supply exactly the declared images, with harmless operations interleaved
/// The histories covered by the known finding "stream writer on an animated encoder emits a malformed APNG" (identified on the unchanged tree):
/// the FIRST image of an animation goes through a stream writer (its IDAT chunks get a sequence-number prefix and the numbering shifts), or a
/// streamed frame is narrower than the canvas (rows of canvas width are written).  Later full-width frames streamed after a first image written
/// whole are NOT in this class: they are conformant on the unchanged tree.
pub fn known_stream_zone(cfg: &WCfg, ops: &[WOp]) -> bool {
    if cfg.animated.is_none() { return false; }
    let mut narrow = false;
    let mut idx = 0;
    for op in ops {
        match op {
            WOp::FrameDim(fw, _) => { narrow = *fw != cfg.w; }
            WOp::ResetDim => { narrow = false; }
            WOp::Image { stream, .. } => { if stream.is_some() && (idx == 0 || narrow) { return true; } idx += 1; }
            WOp::IntoStream { .. } => { if idx == 0 || narrow { return true; } idx += 1; }
            _ => {}
        }
    }
    false
}

pub fn declared_ops(cfg: &WCfg, rng: &mut Rng, allow_stream: bool, allow_subframes: bool) -> Vec<WOp> {
    let n = match cfg.animated { Some((nf, _)) => nf as usize + cfg.sep as usize, None => 1 };
    let mut ops = vec![];
    for k in 0..n {
        if rng.chance(1, 4) {
            ops.push(WOp::RawChunk((0..rng.below(12)).map(|_| rng.byte()).collect()));
        }
        if rng.chance(1, 5) {
            ops.push(WOp::Text(rng.below(3) as u8));
        }
        if cfg.animated.is_some() {
            // sub-frames only after the image that must cover the canvas (the IDAT image)
            // before the IDAT image the setters must refuse anything but the canvas rectangle (the image is then written full size)
            if allow_subframes && k == 0 && cfg.w > 1 && cfg.h > 1 && rng.chance(1, 5) {
                match rng.below(3) {
                    0 => ops.push(WOp::FrameDim(rng.range(1, cfg.w as u64 - 1) as u32, cfg.h)),
                    1 => ops.push(WOp::FrameDim(cfg.w, rng.range(1, cfg.h as u64 - 1) as u32)),
                    _ => { ops.push(WOp::FrameDim(cfg.w - 1, cfg.h - 1)); ops.push(WOp::FramePos(1, 1)); }
                }
            }
            if allow_subframes && k >= 1 && rng.chance(1, 2) {
                let fw = rng.range(1, cfg.w as u64) as u32;
                let fh = rng.range(1, cfg.h as u64) as u32;
                ops.push(WOp::ResetPos);
                ops.push(WOp::FrameDim(fw, fh));
                ops.push(WOp::FramePos(rng.range(0, (cfg.w - fw) as u64) as u32, rng.range(0, (cfg.h - fh) as u64) as u32));
            }
            if rng.chance(1, 4) { ops.push(WOp::Delay(rng.below(100) as u16, rng.below(100) as u16)); }
            if rng.chance(1, 5) { ops.push(WOp::Blend(rng.below(2) as u8)); }
            if rng.chance(1, 5) { ops.push(WOp::Dispose(rng.below(3) as u8)); }
        }
        if rng.chance(1, 5) { ops.push(WOp::Filter(rng.below(6) as u8)); }
        let stream = if allow_stream && rng.chance(1, 2) { Some(*rng.pick(&[1usize, 2, 3, 7, 16, 64, 4096])) } else { None };
        let parts: Vec<usize> = if rng.chance(1, 2) { vec![] } else { (0..rng.range(1, 4)).map(|_| rng.range(1, 30) as usize).collect() };
        ops.push(WOp::Image { stream, parts });
    }
    ops
}

/// configurations given as a complete `Info` (Encoder::with_info), every metadata field set that an Info can carry - whatever the encoder
/// chooses to write of it has to come out in a legal chunk order (colour-space chunks and sBIT before PLTE, tRNS / bKGD after it, all before IDAT)
fn with_info_metadata_cases(o: &mut Out, rng: &mut Rng, thorough: bool) {
    use std::borrow::Cow;
    for k in 0..(if thorough { 300 } else { 45 }) {
        let (color, depth) = *rng.pick(&[(3u8, 8u8), (3, 4), (3, 2), (3, 1), (2, 8), (0, 8), (6, 8), (2, 16)]);
        let (w, h) = (rng.range(1, 6) as u32, rng.range(1, 5) as u32);
        let animated = k % 3 == 0;
        let rb = crate::refimpl::row_bytes(color, depth, w as u64) as usize;
        let nimg = if animated { 2 } else { 1 };
        let images: Vec<Vec<u8>> = (0..nimg).map(|_| rng.bytes(rb * h as usize)).collect();
        let mask = rng.next() as u32;
        o.mark(&format!("with_info metadata c{}d{} {}x{} animated={} mask={:#x}", color, depth, w, h, animated, mask));
        let sink = Sink::new(0, None, false);
        let r = guarded(|| -> Result<(), String> {
            let mut info = png::Info::with_size(w, h);
            info.color_type = color_of(color);
            info.bit_depth = depth_of(depth);
            let chans = match color { 0 => 1, 2 => 3, 3 => 3, 4 => 2, _ => 4 };
            if color == 3 || mask & 1 != 0 { if color == 3 || color == 2 || color == 6 { info.palette = Some(Cow::Owned((0..3 * (1usize << depth.min(8)).min(256)).map(|i| (i * 7) as u8).collect())); } }
            if mask & 2 != 0 { info.sbit = Some(Cow::Owned(vec![depth.min(8).max(1); chans])); }
            if mask & 4 != 0 && color != 6 { info.trns = Some(Cow::Owned(match color { 3 => vec![0, 128], 0 => vec![0, 1], _ => vec![0, 1, 0, 2, 0, 3] })); }
            if mask & 8 != 0 { info.pixel_dims = Some(png::PixelDimensions { xppu: 2835, yppu: 2835, unit: png::Unit::Meter }); }
            if mask & 16 != 0 { info.source_gamma = Some(png::ScaledFloat::from_scaled(45455)); info.gama_chunk = info.source_gamma; }
            if mask & 32 != 0 { info.srgb = Some(png::SrgbRenderingIntent::Perceptual); }
            if mask & 64 != 0 { info.icc_profile = Some(Cow::Owned((0..40).map(|i| i as u8).collect())); }
            if mask & 128 != 0 { info.exif_metadata = Some(Cow::Owned(b"II*\0\x08\0\0\0".to_vec())); }
            if mask & 256 != 0 { info.bkgd = Some(Cow::Owned(match color { 3 => vec![1], 0 => vec![0, 1], _ => vec![0, 1, 0, 2, 0, 3] })); }
            if mask & 512 != 0 { info.coding_independent_code_points = Some(png::CodingIndependentCodePoints { color_primaries: 1, transfer_function: 13, matrix_coefficients: 0, is_video_full_range_image: true }); }
            if mask & 1024 != 0 { info.content_light_level = Some(png::ContentLightLevelInfo { max_content_light_level: 1000, max_frame_average_light_level: 400 }); }
            if mask & 2048 != 0 { info.uncompressed_latin1_text.push(png::text_metadata::TEXtChunk::new("Title", "x")); }
            if animated {
                info.animation_control = Some(png::AnimationControl { num_frames: 2, num_plays: 0 });
                let mut fc = png::FrameControl::default();
                fc.width = w; fc.height = h;
                info.frame_control = Some(fc);
            }
            let e = png::Encoder::with_info(sink.clone(), info).map_err(|er| format!("with_info: {:?}", er))?;
            let mut wr = e.write_header().map_err(|er| format!("header: {:?}", er))?;
            for im in &images { wr.write_image_data(im).map_err(|er| format!("image: {:?}", er))?; }
            wr.finish().map_err(|er| format!("finish: {:?}", er))
        });
        o.direct_checks += 1;
        o.count("with-info-metadata");
        match r {
            Err(m) => { o.violation(viol("encoder-panicked", "encoder-panicked", vec![("why", jstr(&m)), ("mask", mask.to_string())])); continue; }
            Ok(Err(_)) => { o.count("with-info-metadata.refused"); continue; }
            Ok(Ok(())) => {}
        }
        let bytes = sink.0.borrow().accepted.clone();
        if let Err(why) = validate(&bytes) {
            o.violation(viol("encoder-output-not-conformant", "encoder-output-not-conformant", vec![("config", jstr(&format!("with_info c{}d{} {}x{} animated={} metadata mask {:#x}", color, depth, w, h, animated, mask))), ("why", jstr(&why)), ("emitted", jstr(&hex(&bytes)))]));
        }
    }
}

pub fn run(a: &Args) {
    let mut o = Out::new(&a.out);
    let mut rng = Rng::new(a.seed);
    let thorough = a.tier == "thorough";
    for k in 0..(if thorough { 60000 } else { 2500 }) {
        let mut cfg = random_cfg(&mut rng, None);
        // an indexed image whose palette was never set: no path may accept it (a PNG with colour type 3 and no PLTE is not one)
        if cfg.color == 3 && cfg.animated.is_none() && k % 5 == 0 { cfg.palette = None; }
        let cfg = cfg;
        let ops = declared_ops(&cfg, &mut rng, true, true);
        let mut ops = ops;
        // every 7th still image: the (only) image is written through an OWNED stream writer that is finished (the Writer's own end-of-stream handling must not add a second IEND)
        if cfg.animated.is_none() && k % 7 == 0 {
            if let Some(pos) = ops.iter().position(|x| matches!(x, WOp::Image { .. })) {
                ops.truncate(pos);
                ops.push(WOp::IntoStream { size: *rng.pick(&[1usize, 7, 64, 4096]), parts: vec![rng.range(1, 30) as usize], fraction: 4 });
            }
        }
        let short = if k % 3 == 0 { rng.range(1, 9) as usize } else { 0 };
        let sink = Sink::new(short, None, false);
        let finish = k % 4 != 3;
        o.mark(&format!("writer {:?} {:?} finish={}", cfg, ops, finish));
        let run = run_writer(&cfg, &ops, sink.clone(), finish, &mut rng);
        o.direct_checks += 1;
        let bytes = sink.0.borrow().accepted.clone();
        let uses_stream = ops.iter().any(|x| matches!(x, WOp::Image { stream: Some(_), .. } | WOp::IntoStream { .. }));
        o.count(&format!("cfg.{}{}{}", if cfg.animated.is_some() { "animated" } else { "still" }, if cfg.sep { "+sep" } else { "" }, if uses_stream { "+stream" } else { "" }));
        o.distinct(&format!("{}-{}-{:?}-{}-{}-{}", cfg.color, cfg.depth, cfg.animated.map(|x| x.0), cfg.sep, uses_stream, finish));
        let detail = |why: &str| vec![("config", jstr(&format!("{:?}", cfg))), ("ops", jstr(&format!("{:?}", ops))), ("finish", finish.to_string()), ("why", jstr(why)),
            ("results", jstr(&run.results.join(" | "))), ("finish_result", jstr(&run.finish)), ("emitted", jstr(&hex(&bytes)))];
        if let Some(m) = &run.panicked {
            o.violation(viol("encoder-panicked", "encoder-panicked", detail(m)));
            continue;
        }
        if run.errors_before_finish > run.setter_refusals || (finish && run.finish != "ok") {
            // the sequence was not accepted: not in the scope of this property (C19 looks at it)
            o.count("not-accepted");
            continue;
        }
        if std::env::var("VERIF_DEBUG_C12").is_ok() && uses_stream && cfg.animated.is_some() {
            // features of the history: which images are streamed, and whether a streamed image is a sub-frame
            let mut feats = vec![];
            let mut sub = false;
            let mut idx = 0;
            for op in &ops {
                match op {
                    WOp::FrameDim(fw, fh) => { sub = *fw != cfg.w || *fh != cfg.h; }
                    WOp::ResetDim => { sub = false; }
                    WOp::Image { stream, .. } => { feats.push(format!("{}{}{}", idx, if stream.is_some() { "S" } else { "w" }, if sub { "sub" } else { "" })); idx += 1; }
                    WOp::IntoStream { .. } => { feats.push(format!("{}I{}", idx, if sub { "sub" } else { "" })); idx += 1; }
                    _ => {}
                }
            }
            eprintln!("C12DBG sep={} nf={:?} {} => {}", cfg.sep, cfg.animated, feats.join(" "), match validate(&bytes) { Ok(_) => "OK".to_string(), Err(e) => format!("BAD {}", e.chars().take(60).collect::<String>()) });
        }
        match validate(&bytes) {
            Ok(v) => {
                if !uses_stream {
                    let ns: Vec<String> = run.images.iter().map(|_| "1".to_string()).collect();
                    o.case(&format!("writer {} {} {} {}", cfg.animated.map(|x| x.0.to_string()).unwrap_or_else(|| "-".into()), cfg.sep as u8, cfg.palette.is_some() as u8, ns.join(",")),
                        &v.kinds.join(" "), &format!("{:?}-{}", cfg.animated.map(|x| x.0), cfg.sep), true);
                }
            }
            Err(why) => {
                let class = if uses_stream && known_stream_zone(&cfg, &ops) { "stream-writer-on-animated-encoder-emits-malformed-apng" } else { "encoder-output-not-conformant" };
                o.violation(viol("encoder-output-not-conformant", class, detail(&why)));
            }
        }
    }
    // frames whose compressed data is larger than 64 KiB (several data chunks per frame are possible): noise through an animated encoder
    for k in 0..(if thorough { 12 } else { 3 }) {
        let mut cfg = random_cfg(&mut rng, Some(true));
        cfg.w = 150 + k as u32; cfg.h = 150; cfg.color = 2; cfg.depth = 8; cfg.palette = None; cfg.sep = k % 2 == 1;
        cfg.compression = *rng.pick(&[0u8, 1, 3, 13]);
        let n = match cfg.animated { Some((nf, _)) => nf as usize + cfg.sep as usize, None => 1 };
        let ops: Vec<WOp> = (0..n).map(|_| WOp::Image { stream: None, parts: vec![] }).collect();
        let sink = Sink::new(0, None, false);
        o.mark(&format!("writer-big {:?} {:?}", cfg, ops));
        let run = run_writer(&cfg, &ops, sink.clone(), true, &mut rng);
        o.direct_checks += 1;
        o.count("cfg.animated+big-frames");
        let bytes = sink.0.borrow().accepted.clone();
        if run.panicked.is_some() || run.errors_before_finish > 0 || run.finish != "ok" { o.violation(viol("encoder-panicked", "encoder-refused-big-frames", vec![("config", jstr(&format!("{:?}", cfg))), ("results", jstr(&run.results.join(" | "))), ("panic", jstr(&format!("{:?}", run.panicked)))])); continue; }
        if let Err(why) = validate(&bytes) {
            o.violation(viol("encoder-output-not-conformant", "encoder-output-not-conformant", vec![("config", jstr(&format!("{:?}", cfg))), ("why", jstr(&why)), ("emitted_len", bytes.len().to_string())]));
        }
    }
    with_info_metadata_cases(&mut o, &mut rng, thorough);
    o.mark("done");
    o.finish();
}

pub fn replay(_case: &str) -> String {
    "unknown-case".into()
}
