//! Counting global allocator: live bytes and peak live bytes since the last reset (used by C06 and C20).
use std::alloc::{GlobalAlloc, Layout, System};
use std::sync::atomic::{AtomicUsize, Ordering};

pub struct Counting;

static LIVE: AtomicUsize = AtomicUsize::new(0);
static PEAK: AtomicUsize = AtomicUsize::new(0);

unsafe impl GlobalAlloc for Counting {
    unsafe fn alloc(&self, l: Layout) -> *mut u8 {
        let p = System.alloc(l);
        if !p.is_null() {
            let v = LIVE.fetch_add(l.size(), Ordering::Relaxed) + l.size();
            PEAK.fetch_max(v, Ordering::Relaxed);
        }
        p
    }
    unsafe fn dealloc(&self, p: *mut u8, l: Layout) {
        System.dealloc(p, l);
        LIVE.fetch_sub(l.size(), Ordering::Relaxed);
    }
    unsafe fn alloc_zeroed(&self, l: Layout) -> *mut u8 {
        let p = System.alloc_zeroed(l);
        if !p.is_null() {
            let v = LIVE.fetch_add(l.size(), Ordering::Relaxed) + l.size();
            PEAK.fetch_max(v, Ordering::Relaxed);
        }
        p
    }
    unsafe fn realloc(&self, p: *mut u8, l: Layout, new: usize) -> *mut u8 {
        let q = System.realloc(p, l, new);
        if !q.is_null() {
            if new >= l.size() {
                let v = LIVE.fetch_add(new - l.size(), Ordering::Relaxed) + (new - l.size());
                PEAK.fetch_max(v, Ordering::Relaxed);
            } else {
                LIVE.fetch_sub(l.size() - new, Ordering::Relaxed);
            }
        }
        q
    }
}

pub fn live() -> usize {
    LIVE.load(Ordering::Relaxed)
}

/// start a measurement: returns the current live bytes and resets the peak to it
pub fn mark() -> usize {
    let v = LIVE.load(Ordering::Relaxed);
    PEAK.store(v, Ordering::Relaxed);
    v
}

/// peak live bytes above the mark
pub fn peak_above(mark: usize) -> usize {
    PEAK.load(Ordering::Relaxed).saturating_sub(mark)
}
