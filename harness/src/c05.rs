//! C05: truncation gives a resumable end-of-input error; resuming completes identically.
//! For every valid file and (sampled) every truncation point: decoding the prefix never reports a format error and never
//! a successful frame whose data is incomplete; the call that runs out of input returns UnexpectedEof; when more bytes
//! become available and the same call is repeated - under several growth schedules - the final outcome (metadata, pixels
//! of every frame, end-of-image) equals decoding the complete file in one go.
use crate::gen::*;
use crate::ops::*;
use crate::readerrun::*;
use crate::streamrun::*;
use crate::util::*;

fn viol(kind: &str, detail: Vec<(&str, String)>) -> String {
    let mut kv = vec![("kind", jstr(kind)), ("class", jstr(kind))];
    kv.extend(detail);
    jobj(&kv)
}

/// Decode with a visible prefix that grows by `step` (0 = all at once) whenever a call reports UnexpectedEof; the failed
/// call is repeated.  `path`: 0 next_frame, 1 next_row, 2 read_row, 3 next_frame_info (skip every frame), 4 finish, 5 next_interlaced_row;
/// 6 / 7 / 8: frames taken alternately by row calls (next_row / read_row / next_interlaced_row, until `None`) and by next_frame - the
/// frame after a frame read row by row is requested with next_frame directly, without next_frame_info in between
pub fn resumable(bytes: &[u8], cut: usize, step: usize, path: u32, sched: &[usize]) -> (String, Vec<String>) {
    let pr = PieceReader::new(bytes.to_vec(), sched);
    let vis = pr.visible.clone();
    vis.set(cut);
    let grow = |vis: &std::rc::Rc<std::cell::Cell<usize>>| -> bool {
        if vis.get() >= bytes.len() {
            return false;
        }
        vis.set(if step == 0 { bytes.len() } else { (vis.get() + step).min(bytes.len()) });
        true
    };
    let mut log: Vec<String> = vec![];
    let r = guarded(|| -> String {
        let mut dec = open_decoder(pr, Opts::default(), 0, None);
        // read_header_info is retried on the same decoder
        loop {
            match dec.read_header_info() {
                Ok(_) => break,
                Err(e) => {
                    let c = res_err(&e);
                    log.push(format!("H {}", c));
                    if c != "err:Io:UnexpectedEof" || !grow(&vis) {
                        return format!("HDR {}", c);
                    }
                }
            }
        }
        // read_info cannot be retried: the property exempts it (it consumes the decoder); make everything up to the image data visible
        let first_idat = bytes.windows(4).position(|w| w == b"IDAT").map(|p| p + 5).unwrap_or(bytes.len());
        if vis.get() < first_idat {
            vis.set(first_idat.min(bytes.len()));
        }
        let mut rd = match dec.read_info() {
            Ok(r) => r,
            Err(e) => return format!("RI {}", res_err(&e)),
        };
        let mut out = String::new();
        let mut eofs = 0u64;
        let mut frames = 0;
        let mut rows_hash: u64 = 7;
        let mut nrows = 0u64;
        let mut frame_buf: Vec<u8> = vec![];
        let mixed = path >= 6;
        let mut frame_turn = false;   // mixed paths: the next frame is taken by next_frame
        let row_kind = match path { 6 => 1, 7 => 2, 8 => 5, p => p };
        loop {
            // one call of the chosen kind, repeated after UnexpectedEof
            let r: Result<String, png::DecodingError> = match if mixed && frame_turn { 0 } else { row_kind } {
                0 => {
                    // the SAME buffer is offered again when the call is repeated after UnexpectedEof (rows already decoded stay in it)
                    if frame_buf.is_empty() {
                        frame_buf = vec![0u8; rd.output_buffer_size().min(MAX_BUF)];
                    }
                    let r = rd.next_frame(&mut frame_buf).map(|oi| {
                        let n = oi.buffer_size().min(frame_buf.len());
                        format!("F {}x{} h={}", oi.width, oi.height, hash(&frame_buf[..n]))
                    });
                    if r.is_ok() {
                        frame_buf = vec![];
                    }
                    r
                }
                1 => rd.next_row().map(|o| match o { Some(r) => { format!("r{}", hash(r.data())) } None => "none".into() }),
                5 => rd.next_interlaced_row().map(|o| match o { Some(r) => { format!("r{}", hash(r.data())) } None => "none".into() }),
                2 => {
                    let mut b = vec![0u8; rd.output_line_size(rd.info().width)];
                    rd.read_row(&mut b).map(|o| match o { Some(_) => format!("r{}", hash(&b)), None => "none".into() })
                }
                3 => rd.next_frame_info().map(|f| format!("N {}", fctl_str(f))),
                _ => rd.finish().map(|_| "X".to_string()),
            };
            match r {
                Err(e) => {
                    let c = res_err(&e);
                    if c == "err:Io:UnexpectedEof" {
                        eofs += 1;
                        log.push(format!("eof@{}", vis.get()));
                        if grow(&vis) && eofs < 200_000 {
                            continue;
                        }
                    }
                    out.push_str(&format!(" | END {}", c));
                    break;
                }
                Ok(s) => {
                    if s.starts_with('r') {
                        // row paths: fold rows into a per-frame hash
                        rows_hash = (rows_hash * 31 + s[1..].parse::<u64>().unwrap_or(0)) % 1_000_000_007;
                        nrows += 1;
                        continue;
                    }
                    if s == "none" {
                        out.push_str(&format!(" | rows={} h={}", nrows, rows_hash));
                        rows_hash = 7;
                        nrows = 0;
                        frames += 1;
                        if mixed {
                            frame_turn = true;
                            if frames > 40 { break; }
                            continue;
                        }
                        // advance to the next frame (if any) by the frame-info call, itself retried on EOF
                        loop {
                            match rd.next_frame_info() {
                                Ok(f) => { out.push_str(&format!(" | N {}", fctl_str(f))); break; }
                                Err(e) => {
                                    let c = res_err(&e);
                                    if c == "err:Io:UnexpectedEof" && grow(&vis) { continue; }
                                    out.push_str(&format!(" | END {}", c));
                                    // finish, retried
                                    loop {
                                        match rd.finish() {
                                            Ok(()) => { out.push_str(" | FIN ok"); break; }
                                            Err(e) => { let c = res_err(&e); if c == "err:Io:UnexpectedEof" && grow(&vis) { continue; } out.push_str(&format!(" | FIN {}", c)); break; }
                                        }
                                    }
                                    return format!("{} | INFO={}", out, info_dump(rd.info()));
                                }
                            }
                        }
                        if frames > 40 { break; }
                        continue;
                    }
                    out.push_str(&format!(" | {}", s));
                    frames += 1;
                    frame_turn = false;
                    if s == "X" || frames > 40 {
                        break;
                    }
                }
            }
        }
        if path != 4 {
            loop {
                match rd.finish() {
                    Ok(()) => { out.push_str(" | FIN ok"); break; }
                    Err(e) => { let c = res_err(&e); if c == "err:Io:UnexpectedEof" && grow(&vis) { continue; } out.push_str(&format!(" | FIN {}", c)); break; }
                }
            }
        }
        format!("{} | INFO={}", out, info_dump(rd.info()))
    });
    match r {
        Ok(s) => (s, log),
        Err(m) => (format!("PANIC {}", m), log),
    }
}

pub fn run(a: &Args) {
    let mut o = Out::new(&a.out);
    let mut rng = Rng::new(a.seed);
    let thorough = a.tier == "thorough";
    let mut files: Vec<(String, Vec<u8>)> = vec![];
    for k in 0..(if thorough { 300 } else { 36 }) {
        let b = valid_file(&mut rng, &GenOpts { maxw: 8, maxh: 8, anc: k % 2 == 0, animated: Some(k % 3 == 0) });
        files.push((b.name.clone(), b.bytes.clone()));
    }
    // rows filtered with Up/Avg/Paeth so that a lost previous row shows; compressed multi-IDAT
    for k in 0..(if thorough { 30 } else { 6 }) {
        let col = *rng.pick(&[0u8, 2, 6]);
        let im = crate::c01::aligned_image(&mut rng, 8, 8, col, 8, 1 + k % 3, Some(2 + (k % 3) as u8));
        files.push((im.name.clone(), im.file.clone()));
        let (rw, rh) = (rng.range(3, 20) as u32, rng.range(3, 12) as u32);
        let im2 = crate::c01::random_image(&mut rng, rw, rh, 2, 8, k % 2 == 0);
        files.push((im2.name.clone(), im2.file.clone()));
    }
    // a large text chunk after the image data (resumed byte by byte while buffering a chunk body > 32 KiB)
    {
        use crate::pngbuild::*;
        let mut d = b"Comment\0".to_vec();
        d.extend((0..40000).map(|i| 32 + (i % 90) as u8));
        let chunks = vec![ihdr(2, 2, 8, 0, 0), Chunk::new(b"IDAT", zlib_stored(&[0, 1, 2, 0, 3, 4], 6)), Chunk::new(b"tEXt", d), Chunk::new(b"IEND", vec![])];
        files.push(("big-text-after-idat".into(), assemble(&chunks)));
    }
    // the stream machine on prefixes and on prefix-then-rest, against the extracted model (the byte-level theorems of Props/C05.v are about this model)
    for (name, bytes) in files.iter().filter(|(_, b)| b.len() <= 600).take(if thorough { 120 } else { 14 }) {
        let ncuts = if thorough { 12 } else { 4 };
        for _ in 0..ncuts {
            let cut = rng.range(1, bytes.len() as u64 - 1) as usize;
            let opts = Opts::default();
            // the prefix alone
            let r = crate::streamrun::run_l0(&[bytes[..cut].to_vec()], opts, None);
            o.case(&format!("l0 {} {} 0 {}", opts.bits(), 67108864u64, hex(&bytes[..cut])), &crate::c04::strip_d(&r.text), &format!("prefix-{}-{}", name.len() % 7, cut % 13), cut > 33);
            if r.text.contains("END=ERR") {
                o.violation(viol("format-error-on-truncated-input", vec![("file", jstr(name)), ("cut", cut.to_string()), ("bytes", jstr(&hex(bytes))), ("l0", jstr(&r.text.chars().take(600).collect::<String>()))]));
            }
            // the prefix, then the rest
            let r2 = crate::streamrun::run_l0(&[bytes[..cut].to_vec(), bytes[cut..].to_vec()], opts, None);
            o.case(&format!("l0 {} {} {},{} {}", opts.bits(), 67108864u64, cut, bytes.len(), hex(bytes)), &crate::c04::strip_d(&r2.text), &format!("resume-{}-{}", name.len() % 7, cut % 13), true);
            o.count("l0.prefix-cases");
        }
    }
    for (fi, (name, bytes)) in files.iter().enumerate() {
        o.count("files");
        let big = bytes.len() > 5000;
        for path in 0..9u32 {
            // thorough tier: the mixed paths on every second file (the tier otherwise takes half an hour on its own)
            if thorough && path >= 6 && fi % 2 == 1 { continue; }
            let (whole, _) = resumable(bytes, bytes.len(), 0, path, &[0]);
            if whole.contains("err:") && !whole.contains("PolledAfterEndOfImage") {
                o.notes.push(format!("one-shot decode of generated file reported an error (path {}): {} {}", path, name, whole.chars().take(200).collect::<String>()));
            }
            // truncation points: all for small files (thorough), a sample otherwise
            let cuts: Vec<usize> = if big { (0..40).map(|_| rng.below(bytes.len() as u64) as usize).chain([bytes.len() - 1, bytes.len() - 5, 33, 34]).collect() }
                else if thorough || bytes.len() < 260 { (0..bytes.len()).collect() } else { (0..bytes.len()).filter(|c| c % 3 == (path as usize % 3) || *c < 60).collect() };
            for &cut in &cuts {
                let steps: Vec<usize> = if big { vec![if path == 4 && cut % 7 == 0 { 1 } else { 997 }, 0] } else { vec![1, *rng.pick(&[2usize, 7, 40, 1000]), 0] };
                for &step in &steps {
                    o.mark(&format!("resume path={} cut={} step={} {} {}", path, cut, step, name, if bytes.len() < 6000 { hex(bytes) } else { format!("(len {})", bytes.len()) }));
                    let (got, log) = resumable(bytes, cut, step, path, if cut % 2 == 0 { &[0] } else { &[5] });
                    o.direct_checks += 1;
                    if got != whole {
                        let kind = if got.starts_with("PANIC") { "panic-while-resuming" } else if got.contains("err:Format") && !whole.contains("err:Format") { "format-error-on-truncated-input" } else { "resumed-decode-differs-from-one-shot" };
                        o.violation(viol(kind, vec![("file", jstr(name)), ("path", path.to_string()), ("cut", cut.to_string()), ("growth_step", step.to_string()),
                            ("bytes", jstr(&if bytes.len() < 6000 { hex(bytes) } else { format!("(len {})", bytes.len()) })), ("resumed", jstr(&got.chars().take(900).collect::<String>())), ("one_shot", jstr(&whole.chars().take(900).collect::<String>())),
                            ("eof_log", jstr(&log.iter().take(12).cloned().collect::<Vec<_>>().join(",")))]));
                    }
                }
                o.distinct(&format!("{}-{}-{}", path, cut % 97, bytes.len() % 13));
            }
        }
        // the prefix alone: only Ok or UnexpectedEof, never a format error, never a frame that is not complete
        let reference: Vec<String> = decode_frames(bytes, Opts::default(), 0, 0).1.iter().map(|(d, p)| format!("{} {}", d, hash(p))).collect();
        for cut in (0..bytes.len()).step_by(if thorough || bytes.len() < 400 { 1 } else { 7 }) {
            o.mark(&format!("prefix cut={} {} {}", cut, name, if bytes.len() < 6000 { hex(bytes) } else { format!("(len {})", bytes.len()) }));
            let (_, got) = decode_frames(&bytes[..cut], Opts::default(), 0, 0);
            let s = summarize(&bytes[..cut], &[0], Opts::default(), 0);
            o.direct_checks += 1;
            let t = s.text();
            if t.contains("err:Format") || t.contains("PANIC") || t.contains("err:Limits") {
                o.violation(viol("format-error-on-truncated-input", vec![("file", jstr(name)), ("cut", cut.to_string()), ("bytes", jstr(&hex(&bytes[..cut]))), ("result", jstr(&s.pixels_text()))]));
            }
            for (k, (d, p)) in got.iter().enumerate() {
                if reference.get(k) != Some(&format!("{} {}", d, hash(p))) {
                    o.violation(viol("incomplete-frame-reported-as-decoded", vec![("file", jstr(name)), ("cut", cut.to_string()), ("frame", k.to_string()), ("bytes", jstr(&hex(&bytes[..cut]))),
                        ("got", jstr(d)), ("complete_file", jstr(&reference.get(k).cloned().unwrap_or_default()))]));
                }
            }
        }
    }
    o.mark("done");
    o.finish();
}

pub fn replay(_case: &str) -> String {
    "unknown-case".into()
}
