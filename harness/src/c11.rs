//! C11: checksum policy. Per-chunk corruption (bit flips in type/data/CRC, CRC replacement, Adler-32 replacement)
//! under the option settings ignore_crc, ignore_adler32, skip_ancillary_crc_failures.
use crate::c04::strip_d;
use crate::c10::frame_of;
use crate::gen::*;
use crate::pngbuild::*;
use crate::readerrun::*;
use crate::streamrun::*;
use crate::util::*;

fn viol(kind: &str, class: &str, detail: Vec<(&str, String)>) -> String {
    let mut kv = vec![("kind", jstr(kind)), ("class", jstr(class))];
    kv.extend(detail);
    jobj(&kv)
}

fn is_critical(ty: &[u8; 4]) -> bool {
    ty[0] & 0x20 == 0
}

const PARSED_ANCILLARY: [&[u8; 4]; 19] = [
    b"gAMA", b"cHRM", b"sRGB", b"pHYs", b"sBIT", b"tRNS", b"bKGD", b"cICP", b"mDCV", b"cLLI", b"eXIf", b"iCCP", b"tEXt", b"zTXt", b"iTXt", b"acTL", b"fcTL",
    b"tIME", b"sPLT",
];

/// the chunks of `chunks` with chunk i given the stale/wrong CRC `crc`
fn with_bad_crc(chunks: &[Chunk], i: usize, f: impl FnOnce(&mut Chunk)) -> Vec<u8> {
    let mut c = chunks.to_vec();
    let good = c[i].crc_value();
    f(&mut c[i]);
    if c[i].crc.is_none() {
        c[i].crc = Some(good); // data/type changed, CRC left as it was
    }
    assemble(&c)
}

fn has_error(s: &Summary) -> bool {
    s.has_error()
}

/// error no later than frame k (k = None: anywhere, finish included)
fn fails_by(s: &Summary, k: Option<usize>) -> bool {
    match k {
        Some(k) => s.ri != "ok" || !s.frame_ok(k),
        None => has_error(s),
    }
}

fn corrupt_cases(o: &mut Out, b: &Built, rng: &mut Rng, thorough: bool) {
    let chunks = parse(&b.bytes).unwrap();
    let fo = frame_of(&chunks);
    let n = chunks.len();
    let last_data = (0..n).rev().find(|&i| &chunks[i].ty == b"IDAT" || &chunks[i].ty == b"fdAT").unwrap();
    let picks: Vec<usize> = if thorough || n <= 8 { (0..n).collect() } else { (0..8).map(|_| rng.below(n as u64) as usize).collect() };
    for &i in &picks {
        let kinds = 4;
        for kind in 0..kinds {
            let mut label = String::new();
            let bytes = with_bad_crc(&chunks, i, |c| match kind {
                0 => {
                    if !c.data.is_empty() {
                        let k = rng.below(c.data.len() as u64) as usize;
                        c.data[k] ^= 1 << rng.below(8);
                        label = format!("data-bit@{}", k);
                    } else {
                        c.crc = Some(c.crc_value() ^ 1);
                        label = "crc-bit0".into();
                    }
                }
                1 => {
                    let bit = rng.below(32);
                    c.crc = Some(c.crc_value() ^ (1 << bit));
                    label = format!("crc-bit{}", bit);
                }
                2 => {
                    let mut v = rng.next() as u32;
                    if v == c.crc_value() {
                        v ^= 0x8000;
                    }
                    c.crc = Some(v);
                    label = "crc-replaced".into();
                }
                _ => {
                    let k = rng.below(4) as usize;
                    let bit = rng.below(8);
                    c.ty[k] ^= 1 << bit;
                    label = format!("type-bit{}@{}", bit, k);
                }
            });
            let mut ty = chunks[i].ty;
            if kind == 3 {
                // recover the flipped type from the file
                let cs = parse(&bytes);
                if let Some(cs) = cs {
                    ty = cs[i].ty;
                } else {
                    continue;
                }
            }
            let tys = String::from_utf8_lossy(&chunks[i].ty).to_string();
            // which frame must fail: the frame the chunk belongs to; chunks after the last data chunk only affect finish()
            // (a chunk whose TYPE was flipped is no longer a data chunk of that frame: the error may come anywhere)
            // (an ancillary chunk that sits between two frames is read on the way to the NEXT frame: that is the frame it belongs to)
            let frame = if i > last_data || kind == 3 { None } else { (i..n).find(|&j| &chunks[j].ty == b"IDAT" || &chunks[j].ty == b"fdAT").map(|j| fo[j]) };
            // chunks the caller asked to ignore are still covered by the CRC rule (two more option sets, for the chunk kinds they concern)
            let mut optsets = vec![Opts::default(), Opts { skip_anc_crc: false, ..Opts::default() }];
            if [&b"tEXt"[..], &b"zTXt"[..], &b"iTXt"[..], &b"iCCP"[..]].contains(&&ty[..]) {
                optsets.push(Opts { skip_anc_crc: false, ignore_text: true, ignore_iccp: true, ..Opts::default() });
                optsets.push(Opts { ignore_text: true, ignore_iccp: true, ..Opts::default() });
            }
            for (oi, opts) in optsets.iter().enumerate() {
                o.mark(&format!("crc {} {} #{} {} opts={} {}", b.name, tys, i, label, opts.bits(), hex(&bytes)));
                let s = summarize(&bytes, &[0], *opts, 0);
                o.direct_checks += 1;
                o.count(&format!("corrupt.{}.{}", if is_critical(&ty) { "critical" } else if &ty == b"fdAT" { "fdAT" } else { "ancillary" }, if opts.skip_anc_crc { "skip" } else { "noskip" }));
                o.distinct(&format!("{}-{}-{}-{}", tys, kind, oi, i.min(12)));
                let detail = |s: &Summary, extra: Vec<(&'static str, String)>| {
                    let mut d = vec![("file", jstr(&b.name)), ("chunk", jstr(&format!("#{} {}", i, tys))), ("corruption", jstr(&label)), ("opts", opts.bits().to_string()),
                        ("bytes", jstr(&hex(&bytes))), ("result", jstr(&s.text()))];
                    d.extend(extra);
                    d
                };
                if s.any_panic() {
                    o.violation(viol("panic-on-corrupt-chunk", "panic-on-corrupt-chunk", detail(&s, vec![])));
                    continue;
                }
                let must_fail = is_critical(&ty) || &ty == b"fdAT" || !opts.skip_anc_crc;
                if must_fail {
                    if !fails_by(&s, frame) {
                        o.violation(viol("crc-mismatch-not-refused", "crc-mismatch-not-refused", detail(&s, vec![("must_fail_by_frame", jstr(&format!("{:?}", frame)))])));
                    }
                } else {
                    // ancillary, skipping on: an error, or exactly the result of the stream without the chunk
                    if !has_error(&s) {
                        let mut c0 = chunks.clone();
                        c0.remove(i);
                        let s0 = summarize(&assemble(&c0), &[0], *opts, 0);
                        if s.text() != s0.text() {
                            let parsed = PARSED_ANCILLARY.iter().any(|t| **t == ty);
                            let class = if parsed { "ancillary-chunk-parsed-before-its-crc-is-compared" } else { "chunk-with-bad-crc-contributes-to-result" };
                            o.violation(viol("chunk-with-bad-crc-contributes-to-result", class, detail(&s, vec![("without_chunk", jstr(&s0.text()))])));
                        }
                    }
                }
            }
        }
    }
}

/// CRC checking disabled: the complete result is independent of the CRC fields
fn ignore_crc_cases(o: &mut Out, b: &Built, rng: &mut Rng) {
    let chunks = parse(&b.bytes).unwrap();
    let opts = Opts { ignore_crc: true, ..Opts::default() };
    let base = summarize(&b.bytes, &[0], opts, 0);
    let base_l0 = strip_crc_values(&run_l0(&[b.bytes.clone()], opts, None).text);
    for round in 0..3 {
        let mut c = chunks.clone();
        for ch in c.iter_mut() {
            ch.crc = Some(match round { 0 => 0, 1 => 0xffff_ffff, _ => rng.next() as u32 });
        }
        let bytes = assemble(&c);
        o.mark(&format!("ignore_crc {} {}", b.name, hex(&bytes)));
        let s = summarize(&bytes, &[0], opts, 0);
        let l0 = strip_crc_values(&run_l0(&[bytes.clone()], opts, None).text);
        o.direct_checks += 2;
        o.count("ignore_crc.fields-replaced");
        if s.text() != base.text() || l0 != base_l0 {
            o.violation(viol("result-depends-on-crc-fields-with-checking-disabled", "result-depends-on-crc-fields-with-checking-disabled",
                vec![("file", jstr(&b.name)), ("bytes", jstr(&hex(&bytes))), ("original", jstr(&base.text())), ("replaced", jstr(&s.text())), ("l0_original", jstr(&base_l0)), ("l0_replaced", jstr(&l0))]));
        }
        if bytes.len() <= 500 && round == 2 {
            o.case(&format!("l0 {} {} 0 {}", opts.bits(), 67108864u64, hex(&bytes)), &strip_d(&run_l0(&[bytes.clone()], opts, None).text), "ignore-crc", true);
        }
    }
}

fn strip_crc_values(text: &str) -> String {
    let (evs, rest) = text.split_once(" END=").unwrap_or((text, ""));
    let kept: Vec<String> = evs.split(';').map(|e| if e.starts_with("CC:") { format!("CC:*:{}", e.rsplit(':').next().unwrap_or("")) } else { e.to_string() }).collect();
    format!("{} END={}", kept.join(";"), rest)
}

/// Adler-32 of the zlib stream of one frame replaced by a wrong value (CRCs recomputed)
fn adler_cases(o: &mut Out, b: &Built, rng: &mut Rng) {
    let chunks = parse(&b.bytes).unwrap();
    let fo = frame_of(&chunks);
    let nframes = b.frames.len();
    let fr = rng.below(nframes as u64) as usize;
    // positions (chunk index, offset) of the payload bytes of frame fr's stream
    let mut pos: Vec<(usize, usize)> = vec![];
    for (i, c) in chunks.iter().enumerate() {
        if fo[i] == fr && (&c.ty == b"IDAT" || &c.ty == b"fdAT") {
            let h = if &c.ty == b"fdAT" { 4 } else { 0 };
            for k in h..c.data.len() {
                pos.push((i, k));
            }
        }
    }
    if pos.len() < 6 {
        return;
    }
    let mut c = chunks.clone();
    let which = rng.below(4) as usize;
    let (ci, ck) = pos[pos.len() - 4 + which];
    c[ci].data[ck] ^= 1 << rng.below(8);
    // every third file: the frame's data run starts with a chunk that carries no data (legal: an empty IDAT / an fdAT holding only its sequence number)
    let mut good_bytes = b.bytes.clone();
    if rng.chance(1, 3) {
        let first = pos[0].0;
        let mut orig = chunks.clone();
        if &chunks[first].ty == b"IDAT" {
            c.insert(first, crate::pngbuild::Chunk::new(b"IDAT", vec![]));
            orig.insert(first, crate::pngbuild::Chunk::new(b"IDAT", vec![]));
        } else {
            c.insert(first, crate::pngbuild::Chunk::new(b"fdAT", vec![0, 0, 0, 0]));
            orig.insert(first, crate::pngbuild::Chunk::new(b"fdAT", vec![0, 0, 0, 0]));
            // renumber fcTL / fdAT in file order
            for v in [&mut c, &mut orig] {
                let mut seq = 0u32;
                for ch in v.iter_mut() {
                    if (&ch.ty == b"fcTL" || &ch.ty == b"fdAT") && ch.data.len() >= 4 { ch.data[..4].copy_from_slice(&seq.to_be_bytes()); seq += 1; }
                }
            }
        }
        good_bytes = assemble(&orig);
        o.count("adler.run-starts-with-empty-chunk");
    }
    let bytes = assemble(&c);
    let good = summarize(&good_bytes, &[0], Opts::default(), 0);
    if good.ri != "ok" || !good.frame_ok(fr) { return; }
    for (ignore, label) in [(true, "ignored"), (false, "checked")] {
        let opts = Opts { ignore_adler: ignore, ..Opts::default() };
        o.mark(&format!("adler {} f{} opts={} {}", b.name, fr, opts.bits(), hex(&bytes)));
        let s = summarize(&bytes, &[0], opts, 0);
        o.direct_checks += 1;
        o.count(&format!("adler.{}.{}", label, if fr == 0 { "IDAT" } else { "fdAT" }));
        o.distinct(&format!("adler-{}-{}-{}", label, fr.min(3), b.spec.color));
        if ignore {
            if s.text() != good.text() {
                o.violation(viol("result-depends-on-adler-field-with-checking-disabled", "result-depends-on-adler-field-with-checking-disabled",
                    vec![("file", jstr(&b.name)), ("frame", fr.to_string()), ("bytes", jstr(&hex(&bytes))), ("original", jstr(&good.text())), ("replaced", jstr(&s.text()))]));
            }
        } else if s.ri == "ok" && s.frame_ok(fr) {
            o.violation(viol("wrong-adler32-accepted-with-checking-enabled", "wrong-adler32-accepted-with-checking-enabled",
                vec![("file", jstr(&b.name)), ("frame", fr.to_string()), ("bytes", jstr(&hex(&bytes))), ("result", jstr(&s.text()))]));
        }
        if bytes.len() <= 500 {
            o.case(&format!("l0 {} {} 0 {}", opts.bits(), 67108864u64, hex(&bytes)), &strip_d(&run_l0(&[bytes.clone()], opts, None).text), &format!("adler-{}", label), true);
        }
    }
    // the same through the setters that are called AFTER construction (Decoder::ignore_checksums, StreamingDecoder::set_ignore_adler32 / set_ignore_crc)
    {
        use png::{Decoded, Decoder, StreamingDecoder};
        o.direct_checks += 2;
        // Reader level: ignore_checksums(false) switches Adler-32 (and CRC) checking on
        let r: Result<bool, String> = guarded(|| {
            let mut d = Decoder::new(std::io::Cursor::new(&bytes[..]));
            d.ignore_checksums(false);
            let mut rd = match d.read_info() { Ok(r) => r, Err(_) => return true };
            let mut buf = vec![0u8; rd.output_buffer_size()];
            for _ in 0..=fr { if rd.next_frame(&mut buf).is_err() { return true; } }
            false
        });
        if let Ok(false) | Err(_) = r {
            o.violation(viol("wrong-adler32-accepted-with-checking-enabled", "wrong-adler32-accepted-with-checking-enabled",
                vec![("file", jstr(&b.name)), ("frame", fr.to_string()), ("bytes", jstr(&hex(&bytes))), ("result", jstr(&format!("Decoder::ignore_checksums(false): {:?}", r)))]));
        }
        // low level: set_ignore_adler32(false) before the first byte
        let r: Result<bool, String> = guarded(|| {
            let mut d = StreamingDecoder::new();
            let accepted = d.set_ignore_adler32(false);
            let mut img = vec![];
            let mut buf = &bytes[..];
            let mut flushed = 0usize;
            while !buf.is_empty() {
                match d.update(buf, &mut img) {
                    Err(_) => return true,
                    Ok((n, ev)) => { buf = &buf[n..]; if matches!(ev, Decoded::ImageDataFlushed) { flushed += 1; if flushed > fr { return !accepted; } } if matches!(ev, Decoded::ImageEnd) { break; } }
                }
            }
            !accepted
        });
        if let Ok(false) | Err(_) = r {
            o.violation(viol("wrong-adler32-accepted-with-checking-enabled", "wrong-adler32-accepted-with-checking-enabled",
                vec![("file", jstr(&b.name)), ("frame", fr.to_string()), ("bytes", jstr(&hex(&bytes))), ("result", jstr(&format!("StreamingDecoder::set_ignore_adler32(false): {:?}", r)))]));
        }
        o.count("adler.enabled-after-construction");
    }
    // correct checksums must of course be accepted with checking on
    let s = summarize(&good_bytes, &[0], Opts { ignore_adler: false, ..Opts::default() }, 0);
    o.direct_checks += 1;
    if s.text() != good.text() {
        o.violation(viol("valid-file-rejected-with-adler-checking", "valid-file-rejected-with-adler-checking", vec![("file", jstr(&b.name)), ("bytes", jstr(&hex(&b.bytes))), ("result", jstr(&s.text()))]));
    }
}

/// the input pauses (UnexpectedEof, then it grows) around the CRC field of a data chunk whose CRC does not match: the frame that chunk belongs
/// to must still fail - a pause must not let it through as decoded (the paused call reports the pause, the repeated call the mismatch)
fn paused_cases(o: &mut Out, b: &Built, rng: &mut Rng) {
    let chunks = parse(&b.bytes).unwrap();
    let fo = frame_of(&chunks);
    for k in 0..b.frames.len() {
        let Some(i) = (0..chunks.len()).filter(|&i| (&chunks[i].ty == b"IDAT" || &chunks[i].ty == b"fdAT") && fo[i] == k).last() else { continue };
        let bit = rng.below(32);
        let bytes = with_bad_crc(&chunks, i, |c| { c.crc = Some(c.crc_value() ^ (1 << bit)); });
        let crc_start: usize = 8 + chunks[..i].iter().map(|c| 12 + c.data.len()).sum::<usize>() + 8 + chunks[i].data.len();
        for path in [0u32, 1, 2] {
            let (whole, _) = crate::c05::resumable(&bytes, bytes.len(), 0, path, &[0]);
            for cut in crc_start.saturating_sub(6)..(crc_start + 13).min(bytes.len()) {
                for step in [0usize, 1] {
                    o.mark(&format!("paused crc {} frame {} path {} cut {} step {} {}", b.name, k, path, cut, step, hex(&bytes)));
                    let (got, _) = crate::c05::resumable(&bytes, cut, step, path, &[0]);
                    o.direct_checks += 1;
                    if got != whole {
                        o.violation(viol("crc-mismatch-let-through-when-the-input-pauses", "crc-mismatch-let-through-when-the-input-pauses", vec![("file", jstr(&b.name)), ("frame", k.to_string()), ("path", path.to_string()),
                            ("visible_bytes_at_the_pause", cut.to_string()), ("growth_step", step.to_string()), ("crc_field_at", crc_start.to_string()), ("bytes", jstr(&hex(&bytes))),
                            ("paused_then_resumed", jstr(&got.chars().take(500).collect::<String>())), ("all_at_once", jstr(&whole.chars().take(500).collect::<String>()))]));
                        return;
                    }
                }
            }
        }
        o.count("paused-at-the-crc-of-a-mismatching-data-chunk");
    }
}

/// the header an IHDR with a CRC mismatch declares must not be reported: Decoder::read_header_info() is a result too
fn header_info_cases(o: &mut Out, b: &Built, rng: &mut Rng) {
    let chunks = parse(&b.bytes).unwrap();
    for kind in 0..2 {
        let bit = rng.below(32);
        let bytes = with_bad_crc(&chunks, 0, |c| { if kind == 0 { c.crc = Some(c.crc_value() ^ (1 << bit)); } else { c.data[3] ^= 0x01; } });
        for sched in [vec![0usize], vec![1], vec![7, 30]] {
            o.mark(&format!("header-info bad-crc-ihdr {} kind {} sched {:?} {}", b.name, kind, sched, hex(&bytes)));
            let r = guarded(|| {
                let mut d = open_decoder(PieceReader::new(bytes.clone(), &sched), Opts::default(), 0, None);
                d.read_header_info().map(|i| format!("{}x{}", i.width, i.height)).map_err(|e| res_err(&e))
            });
            o.direct_checks += 1;
            o.count("header-info-of-ihdr-with-crc-mismatch");
            match r {
                Err(m) => o.violation(viol("panic", "panic", vec![("file", jstr(&b.name)), ("panic", jstr(&m))])),
                Ok(Ok(dim)) => o.violation(viol("header-reported-from-ihdr-with-crc-mismatch", "header-reported-from-ihdr-with-crc-mismatch", vec![("file", jstr(&b.name)), ("what", jstr(if kind == 0 { "CRC field changed" } else { "width changed, CRC stale" })),
                    ("read_header_info", jstr(&format!("Ok({})", dim))), ("bytes", jstr(&hex(&bytes)))])),
                Ok(Err(_)) => {}
            }
        }
    }
}

pub fn run(a: &Args) {
    let mut o = Out::new(&a.out);
    let mut rng = Rng::new(a.seed);
    let thorough = a.tier == "thorough";
    let g = GenOpts { maxw: 8, maxh: 6, anc: true, animated: None };
    for fi in 0..(if thorough { 1500 } else { 110 }) {
        let b = valid_file(&mut rng, &GenOpts { animated: Some(fi % 2 == 1), maxw: g.maxw, maxh: g.maxh, anc: g.anc });
        let base = summarize(&b.bytes, &[0], Opts::default(), 0);
        if base.ri != "ok" || !(0..b.frames.len()).all(|k| base.frame_ok(k)) || base.fin != "ok" {
            o.notes.push(format!("generated base file rejected (not counted): {} {}", b.name, base.pixels_text()));
            continue;
        }
        corrupt_cases(&mut o, &b, &mut rng, thorough);
        ignore_crc_cases(&mut o, &b, &mut rng);
        adler_cases(&mut o, &b, &mut rng);
        if fi % 3 == 0 { paused_cases(&mut o, &b, &mut rng); }
        if fi % 4 == 0 { header_info_cases(&mut o, &b, &mut rng); }
    }
    o.mark("done");
    o.finish();
}

pub fn replay(case: &str) -> String {
    crate::c04::replay(case)
}
