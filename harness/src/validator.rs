//! An independent strict PNG/APNG validator (shares no code with the crate: own chunk parser, CRC via crc32fast,
//! inflate via flate2/miniz with an exact-consumption check).  Returns Ok(summary) or Err(first violation).
use crate::pngbuild::SIG;
use crate::refimpl::*;

pub struct VChunk<'a> {
    pub ty: [u8; 4],
    pub data: &'a [u8],
}

pub fn parse_strict(b: &[u8]) -> Result<Vec<VChunk>, String> {
    if b.len() < 8 || b[..8] != SIG {
        return Err("bad signature".into());
    }
    let mut i = 8;
    let mut v = vec![];
    while i < b.len() {
        if i + 12 > b.len() {
            return Err(format!("truncated chunk header at {}", i));
        }
        let len = u32::from_be_bytes([b[i], b[i + 1], b[i + 2], b[i + 3]]) as usize;
        if len > 0x7fff_ffff {
            return Err("chunk length exceeds 2^31-1".into());
        }
        if i + 12 + len > b.len() {
            return Err(format!("chunk at {} runs past the end of the stream", i));
        }
        let ty = [b[i + 4], b[i + 5], b[i + 6], b[i + 7]];
        if !ty.iter().all(|c| c.is_ascii_alphabetic()) {
            return Err(format!("chunk type {:?} is not 4 ASCII letters", ty));
        }
        let crc = u32::from_be_bytes([b[i + 8 + len], b[i + 9 + len], b[i + 10 + len], b[i + 11 + len]]);
        let mut h = crc32fast::Hasher::new();
        h.update(&b[i + 4..i + 8 + len]);
        if h.finalize() != crc {
            return Err(format!("CRC mismatch in {} at {}", String::from_utf8_lossy(&ty), i));
        }
        v.push(VChunk { ty, data: &b[i + 8..i + 8 + len] });
        i += 12 + len;
    }
    Ok(v)
}

/// inflate a zlib stream, requiring that it ends exactly at the end of the input and that the Adler-32 matches
pub fn inflate_exact(z: &[u8]) -> Result<Vec<u8>, String> {
    let mut d = flate2::Decompress::new(true);
    let mut out: Vec<u8> = Vec::with_capacity(z.len() * 4 + 64);
    loop {
        let before_in = d.total_in();
        let before_out = d.total_out();
        out.reserve(32768);
        let st = d.decompress_vec(&z[d.total_in() as usize..], &mut out, flate2::FlushDecompress::None).map_err(|e| format!("zlib error: {}", e))?;
        match st {
            flate2::Status::StreamEnd => break,
            _ => {
                if d.total_in() == before_in && d.total_out() == before_out {
                    return Err("zlib stream is incomplete".into());
                }
            }
        }
    }
    if d.total_in() as usize != z.len() {
        return Err(format!("{} bytes of garbage after the end of the zlib stream", z.len() - d.total_in() as usize));
    }
    Ok(out)
}

pub struct VSummary {
    pub kinds: Vec<String>,
    pub images: usize,
}

/// Full validation.  `kinds` lists acTL / fcTL:seq / IDAT / fdAT:seq / IEND in stream order (for the model comparison).
pub fn validate(b: &[u8]) -> Result<VSummary, String> {
    let chunks = parse_strict(b)?;
    if chunks.is_empty() || &chunks[0].ty != b"IHDR" {
        return Err("first chunk is not IHDR".into());
    }
    let h = chunks[0].data;
    if h.len() != 13 {
        return Err("IHDR length is not 13".into());
    }
    let (w, hh) = (u32::from_be_bytes([h[0], h[1], h[2], h[3]]), u32::from_be_bytes([h[4], h[5], h[6], h[7]]));
    let (depth, color, cm, fm, il) = (h[8], h[9], h[10], h[11], h[12]);
    if w == 0 || hh == 0 || !COLOR_DEPTHS.contains(&(color, depth)) || cm != 0 || fm != 0 || il > 1 {
        return Err(format!("illegal IHDR fields {}x{} c{} d{} {} {} {}", w, hh, color, depth, cm, fm, il));
    }
    let mut kinds = vec![];
    let mut seen_idat = false;
    let mut idat_closed = false;
    let mut in_idat = false;
    let mut actl: Option<u32> = None;
    let mut plte = false;
    let mut next_seq = 0u32;
    let mut fctls = 0u32;
    let mut fctl_before_idat = false;
    // data runs: (frame w, frame h, concatenated zlib)
    let mut runs: Vec<(u32, u32, Vec<u8>)> = vec![];
    let mut pending_fctl: Option<(u32, u32)> = None; // an fcTL whose data has not started
    let mut in_fdat = false;
    let mut iend = false;
    let mut once: Vec<[u8; 4]> = vec![];
    for (i, c) in chunks.iter().enumerate().skip(1) {
        if iend {
            return Err("chunk after IEND".into());
        }
        let name = String::from_utf8_lossy(&c.ty).to_string();
        if &c.ty != b"IDAT" && in_idat {
            in_idat = false;
            idat_closed = true;
        }
        if &c.ty != b"fdAT" {
            in_fdat = false;
        }
        match &c.ty {
            b"IHDR" => return Err("second IHDR".into()),
            b"PLTE" => {
                if plte || seen_idat || c.data.len() % 3 != 0 || c.data.is_empty() || c.data.len() > 768 {
                    return Err("PLTE duplicated, after IDAT or of illegal length".into());
                }
                plte = true;
            }
            b"acTL" => {
                if actl.is_some() || seen_idat || c.data.len() != 8 {
                    return Err("acTL duplicated, after IDAT or of wrong length".into());
                }
                let n = u32::from_be_bytes([c.data[0], c.data[1], c.data[2], c.data[3]]);
                if n == 0 {
                    return Err("acTL declares 0 frames".into());
                }
                actl = Some(n);
                kinds.push("acTL".into());
            }
            b"fcTL" => {
                if actl.is_none() {
                    return Err("fcTL without acTL".into());
                }
                if c.data.len() != 26 {
                    return Err("fcTL length is not 26".into());
                }
                let g = |o: usize| u32::from_be_bytes([c.data[o], c.data[o + 1], c.data[o + 2], c.data[o + 3]]);
                let (seq, fw, fh, fx, fy) = (g(0), g(4), g(8), g(12), g(16));
                if seq != next_seq {
                    return Err(format!("fcTL sequence number {} (expected {})", seq, next_seq));
                }
                next_seq += 1;
                if pending_fctl.is_some() {
                    return Err("fcTL not followed by frame data".into());
                }
                if fw == 0 || fh == 0 || fx as u64 + fw as u64 > w as u64 || fy as u64 + fh as u64 > hh as u64 {
                    return Err("fcTL rectangle empty or outside the canvas".into());
                }
                if c.data[24] > 2 || c.data[25] > 1 {
                    return Err("fcTL dispose/blend op illegal".into());
                }
                if !seen_idat {
                    if fctl_before_idat {
                        return Err("two fcTL before IDAT".into());
                    }
                    if fw != w || fh != hh || fx != 0 || fy != 0 {
                        return Err("first frame (IDAT) must cover the whole canvas".into());
                    }
                    fctl_before_idat = true;
                }
                pending_fctl = Some((fw, fh));
                fctls += 1;
                kinds.push(format!("fcTL:{}", seq));
            }
            b"IDAT" => {
                if idat_closed {
                    return Err("IDAT chunks are not consecutive".into());
                }
                if (color == 3) && !plte {
                    return Err("IDAT before PLTE for an indexed image".into());
                }
                if !seen_idat {
                    runs.push((w, hh, vec![]));
                    pending_fctl = None;
                }
                seen_idat = true;
                in_idat = true;
                runs.last_mut().unwrap().2.extend_from_slice(c.data);
                kinds.push("IDAT".into());
            }
            b"fdAT" => {
                if !seen_idat {
                    return Err("fdAT before IDAT".into());
                }
                if c.data.len() < 4 {
                    return Err("fdAT shorter than 4 bytes".into());
                }
                let seq = u32::from_be_bytes([c.data[0], c.data[1], c.data[2], c.data[3]]);
                if seq != next_seq {
                    return Err(format!("fdAT sequence number {} (expected {})", seq, next_seq));
                }
                next_seq += 1;
                if !in_fdat {
                    match pending_fctl.take() {
                        Some((fw, fh)) => runs.push((fw, fh, vec![])),
                        None => return Err("fdAT without a preceding fcTL".into()),
                    }
                }
                in_fdat = true;
                runs.last_mut().unwrap().2.extend_from_slice(&c.data[4..]);
                kinds.push(format!("fdAT:{}", seq));
            }
            b"IEND" => {
                if !c.data.is_empty() {
                    return Err("IEND with payload".into());
                }
                if i + 1 != chunks.len() {
                    return Err("IEND is not the last chunk".into());
                }
                iend = true;
                kinds.push("IEND".into());
            }
            b"cHRM" | b"gAMA" | b"iCCP" | b"sBIT" | b"sRGB" | b"cICP" | b"mDCV" | b"cLLI" => {
                // colour-space information: once, before PLTE and IDAT
                if once.contains(&c.ty) { return Err(format!("{} more than once", name)); }
                once.push(c.ty);
                if plte || seen_idat { return Err(format!("{} after PLTE/IDAT", name)); }
            }
            b"bKGD" | b"hIST" | b"tRNS" => {
                // once, after PLTE (when there is one - mandatory for indexed images), before IDAT
                if once.contains(&c.ty) { return Err(format!("{} more than once", name)); }
                once.push(c.ty);
                if seen_idat { return Err(format!("{} after IDAT", name)); }
                if color == 3 && !plte { return Err(format!("{} before PLTE", name)); }
            }
            b"pHYs" => {
                if once.contains(&c.ty) { return Err(format!("{} more than once", name)); }
                once.push(c.ty);
                if seen_idat { return Err(format!("{} after IDAT", name)); }
            }
            b"eXIf" => {
                if once.contains(&c.ty) { return Err(format!("{} more than once", name)); }
                once.push(c.ty);
            }
            _ => {
                if c.ty[0] & 0x20 == 0 {
                    return Err(format!("unknown critical chunk {}", name));
                }
            }
        }
    }
    // (a PLTE chunk behind one of the "before PLTE" chunks is found by the rule above when it is reached; the reverse order is checked here)
    if !iend {
        return Err("no IEND".into());
    }
    if !seen_idat {
        return Err("no IDAT".into());
    }
    if pending_fctl.is_some() {
        return Err("last fcTL has no frame data".into());
    }
    if let Some(n) = actl {
        if n != fctls {
            return Err(format!("acTL declares {} frames, {} fcTL present", n, fctls));
        }
    }
    // every image: one valid zlib stream inflating to exactly h * (1 + row bytes) with legal filter bytes
    let bits = samples(color) * depth as usize;
    for (k, (fw, fh, z)) in runs.iter().enumerate() {
        let raw = inflate_exact(z).map_err(|e| format!("image {}: {}", k, e))?;
        let expect: usize = if il == 0 {
            *fh as usize * (1 + (*fw as usize * bits + 7) / 8)
        } else {
            adam7_rows_ref(*fw, *fh).iter().map(|(_, _, lw)| 1 + (*lw as usize * bits + 7) / 8).sum()
        };
        if raw.len() != expect {
            return Err(format!("image {} inflates to {} bytes, expected {}", k, raw.len(), expect));
        }
        let mut pos = 0;
        let rows: Vec<usize> = if il == 0 { vec![(*fw as usize * bits + 7) / 8; *fh as usize] } else { adam7_rows_ref(*fw, *fh).iter().map(|(_, _, lw)| (*lw as usize * bits + 7) / 8).collect() };
        for rb in rows {
            if raw[pos] > 4 {
                return Err(format!("image {}: filter byte {} at offset {}", k, raw[pos], pos));
            }
            pos += 1 + rb;
        }
    }
    Ok(VSummary { kinds, images: runs.len() })
}
