//! C03: encode then decode is lossless for every image and every setting.
//! The produced stream is decoded three ways: by the crate's decoder, by the independent reference (strict chunk
//! parse, inflate with exact end, specification reconstruction), and - for the filtered scanlines - compared with the
//! extracted Coq model of the encoder's row loop (which predicts the filter choice of the adaptive setting exactly).
use crate::c12::*;
use crate::readerrun::*;
use crate::refimpl::*;
use crate::streamrun::*;
use crate::util::*;
use crate::validator::*;

fn viol(kind: &str, detail: Vec<(&str, String)>) -> String {
    let mut kv = vec![("kind", jstr(kind)), ("class", jstr(kind))];
    kv.extend(detail);
    jobj(&kv)
}

/// inflate the IDAT stream of a still image and reconstruct it per the specification
fn reference_decode(bytes: &[u8], w: u32, h: u32, color: u8, depth: u8) -> Result<(Vec<u8>, Vec<u8>), String> {
    let chunks = parse_strict(bytes)?;
    let z: Vec<u8> = chunks.iter().filter(|c| &c.ty == b"IDAT").flat_map(|c| c.data.to_vec()).collect();
    let raw = inflate_exact(&z)?;
    let rb = row_bytes(color, depth, w as u64) as usize;
    if raw.len() != (rb + 1) * h as usize {
        return Err(format!("inflated size {} != {}", raw.len(), (rb + 1) * h as usize));
    }
    let bpp = bpp_filter(color, depth);
    let mut out = vec![];
    let mut prior: Vec<u8> = vec![];
    for y in 0..h as usize {
        let rec = &raw[y * (rb + 1)..(y + 1) * (rb + 1)];
        if rec[0] > 4 {
            return Err(format!("filter byte {}", rec[0]));
        }
        let row = recon_ref(rec[0], bpp, &prior, &rec[1..]);
        out.extend_from_slice(&row);
        prior = row;
    }
    Ok((out, raw))
}

fn one(o: &mut Out, rng: &mut Rng, cfg: &WCfg, stream: Option<usize>, parts: Vec<usize>, short: usize, to_model: bool) {
    let ops = vec![WOp::Image { stream, parts: parts.clone() }];
    let sink = Sink::new(short, None, false);
    o.mark(&format!("roundtrip {:?} stream={:?} parts={:?} short={}", cfg, stream, parts, short));
    let run = run_writer(cfg, &ops, sink.clone(), true, rng);
    o.direct_checks += 1;
    let bytes = sink.0.borrow().accepted.clone();
    o.count(&format!("way.{}", if stream.is_some() { "stream" } else { "whole" }));
    o.count(&format!("compression.{}", cfg.compression));
    o.distinct(&format!("{}-{}-{}-{}-{}-{}", cfg.color, cfg.depth, cfg.filter, cfg.compression, stream.is_some(), (cfg.w as usize * samples(cfg.color) * cfg.depth as usize / 8) % 32));
    let detail = |why: &str, got: &str, want: &str| vec![("config", jstr(&format!("{:?}", cfg))), ("way", jstr(&format!("stream={:?} parts={:?} sink_short_writes={}", stream, parts, short))), ("why", jstr(why)),
        ("results", jstr(&run.results.join(" | "))), ("got", jstr(got)), ("given", jstr(want)), ("emitted", jstr(&if bytes.len() < 4000 { hex(&bytes) } else { format!("(len {})", bytes.len()) }))];
    if let Some(m) = &run.panicked {
        o.violation(viol("encoder-panicked", detail(m, "", "")));
        return;
    }
    if run.errors_before_finish > 0 || run.finish != "ok" || run.images.len() != 1 {
        o.violation(viol("encoder-refused-a-legal-image", detail(&format!("finish={}", run.finish), "", "")));
        return;
    }
    let given = &run.images[0].2;
    let short_hex = |b: &[u8]| if b.len() <= 600 { hex(b) } else { format!("(len {}, hash {})", b.len(), hash(b)) };
    // (1) the crate's own decoder
    let (end, frames) = decode_frames(&bytes, Opts::default(), 0, 0);
    match frames.first() {
        Some((_, px)) if px == given => {}
        Some((_, px)) => {
            let first = px.iter().zip(given.iter()).position(|(a, b)| a != b);
            o.violation(viol("roundtrip-through-own-decoder-differs", detail(&format!("first differing byte {:?}", first), &short_hex(px), &short_hex(given))));
            return;
        }
        None => {
            o.violation(viol("own-decoder-rejects-encoder-output", detail(&end, "", "")));
            return;
        }
    }
    // (2) the independent reference decoder
    match reference_decode(&bytes, cfg.w, cfg.h, cfg.color, cfg.depth) {
        Ok((px, raw)) => {
            if px != *given {
                let first = px.iter().zip(given.iter()).position(|(a, b)| a != b);
                o.violation(viol("roundtrip-through-reference-decoder-differs", detail(&format!("first differing byte {:?}", first), &short_hex(&px), &short_hex(given))));
                return;
            }
            // (3) the filtered scanlines the encoder produced vs the Coq model of its row loop
            // (the stored-block modes NoCompression / the UltraFast fallback bypass filtering: only explicit deflate levels are compared)
            if to_model && raw.len() <= 400 && (2..=11).contains(&cfg.compression) {
                let rb = row_bytes(cfg.color, cfg.depth, cfg.w as u64) as usize;
                o.case(&format!("encrows {} {} {} {}", cfg.filter, bpp_filter(cfg.color, cfg.depth), rb, hex(given)), &hex(&raw), &format!("{}-{}-{}", cfg.filter, cfg.color, cfg.depth), true);
            }
        }
        Err(e) => o.violation(viol("reference-decoder-rejects-encoder-output", detail(&e, "", ""))),
    }
}

/// Encoder::with_info: an `Info` built by hand or taken from a decoder (interlaced flag, frame control of a later frame) must still give a stream
/// that decodes to the bytes given (and that the strict validator accepts)
fn with_info_cases(o: &mut Out, rng: &mut Rng, thorough: bool) {
    for k in 0..(if thorough { 400 } else { 40 }) {
        let (color, depth) = COLOR_DEPTHS[(k % 15) as usize];
        if color == 3 { continue; }
        let (w, h) = (rng.range(1, 12) as u32, rng.range(1, 9) as u32);
        let interlaced = k % 2 == 0;
        let animated = k % 3 == 0;
        let seq0 = if animated { *rng.pick(&[0u32, 1, 5, 1000]) } else { 0 };
        let rb = row_bytes(color, depth, w as u64) as usize;
        let nimg = if animated { 2 } else { 1 };
        let images: Vec<Vec<u8>> = (0..nimg).map(|_| rng.bytes(rb * h as usize)).collect();
        o.mark(&format!("with_info c{}d{} {}x{} interlaced={} animated={} seq0={}", color, depth, w, h, interlaced, animated, seq0));
        let sink = Sink::new(0, None, false);
        let r = guarded(|| -> Result<(), String> {
            let mut info = png::Info::with_size(w, h);
            info.color_type = color_of(color);
            info.bit_depth = depth_of(depth);
            info.interlaced = interlaced;
            if animated {
                info.animation_control = Some(png::AnimationControl { num_frames: 2, num_plays: 0 });
                let mut fc = png::FrameControl::default();
                fc.width = w; fc.height = h; fc.sequence_number = seq0;
                info.frame_control = Some(fc);
            }
            let e = png::Encoder::with_info(sink.clone(), info).map_err(|er| format!("with_info: {:?}", er))?;
            let mut wr = e.write_header().map_err(|er| format!("header: {:?}", er))?;
            for im in &images { wr.write_image_data(im).map_err(|er| format!("image: {:?}", er))?; }
            wr.finish().map_err(|er| format!("finish: {:?}", er))
        });
        o.direct_checks += 1;
        o.count("with-info");
        match r {
            Ok(Ok(())) => {}
            Ok(Err(e)) => { o.violation(viol("encoder-refused-a-legal-image", vec![("why", jstr(&e))])); continue; }
            Err(m) => { o.violation(viol("encoder-panicked", vec![("why", jstr(&m))])); continue; }
        }
        let bytes = sink.0.borrow().accepted.clone();
        if let Err(why) = crate::validator::validate(&bytes) {
            o.violation(viol("encoder-output-not-conformant", vec![("why", jstr(&why)), ("interlaced", interlaced.to_string()), ("first_sequence_number_given", seq0.to_string()), ("emitted", jstr(&hex(&bytes)))]));
            continue;
        }
        let (end, frames) = decode_frames(&bytes, Opts::default(), 0, 0);
        let got: Vec<&Vec<u8>> = frames.iter().map(|f| &f.1).collect();
        if got.len() != images.len() || got.iter().zip(images.iter()).any(|(a, b)| *a != b) {
            o.violation(viol("roundtrip-through-own-decoder-differs", vec![("why", jstr(&format!("{} of {} frames decoded, end {}", got.len(), images.len(), end))), ("interlaced", interlaced.to_string()),
                ("first_sequence_number_given", seq0.to_string()), ("emitted", jstr(&hex(&bytes)))]));
        }
    }
}

/// animations whose later frames all go through ONE stream writer (the first image is written whole): every frame must decode to the bytes
/// given - in particular the first row of every later frame is filtered as the first row of an image
fn streamed_animation_cases(o: &mut Out, rng: &mut Rng, thorough: bool) {
    use std::io::Write;
    for k in 0..(if thorough { 300 } else { 36 }) {
        let (color, depth) = *rng.pick(&[(0u8, 8u8), (2, 8), (6, 8), (0, 16), (4, 8)]);
        let (w, h) = (rng.range(1, 7) as u32, rng.range(1, 5) as u32);
        let filter = (k % 6) as u8;
        let nframes = 2 + (k % 3) as u32;
        let rb = row_bytes(color, depth, w as u64) as usize;
        let images: Vec<Vec<u8>> = (0..nframes).map(|_| rng.bytes(rb * h as usize)).collect();
        o.mark(&format!("streamed animation c{}d{} {}x{} f{} frames={}", color, depth, w, h, filter, nframes));
        let sink = Sink::new(0, None, false);
        let r = guarded(|| -> Result<(), String> {
            let mut e = png::Encoder::new(sink.clone(), w, h);
            e.set_color(color_of(color));
            e.set_depth(depth_of(depth));
            e.set_animated(nframes, 0).map_err(|er| format!("{:?}", er))?;
            e.set_filter(filter_of(filter));
            set_compression(&mut e, 2 + (k % 8) as u8);
            let mut wr = e.write_header().map_err(|er| format!("header: {:?}", er))?;
            wr.write_image_data(&images[0]).map_err(|er| format!("image 0: {:?}", er))?;
            {
                let mut sw = wr.stream_writer_with_size(*rng.pick(&[16usize, 64, 4096])).map_err(|er| format!("stream writer: {:?}", er))?;
                for im in images.iter().skip(1) { sw.write_all(im).map_err(|er| format!("write: {:?}", er))?; }
                sw.finish().map_err(|er| format!("stream finish: {:?}", er))?;
            }
            wr.finish().map_err(|er| format!("finish: {:?}", er))
        });
        o.direct_checks += 1;
        o.count("streamed-animations");
        match r {
            Ok(Ok(())) => {}
            Ok(Err(e)) => { o.violation(viol("encoder-refused-a-legal-image", vec![("why", jstr(&e))])); continue; }
            Err(m) => { o.violation(viol("encoder-panicked", vec![("why", jstr(&m))])); continue; }
        }
        let bytes = sink.0.borrow().accepted.clone();
        let (end, frames) = decode_frames(&bytes, Opts::default(), 0, 0);
        let bad = frames.len() != images.len() || frames.iter().zip(images.iter()).any(|(a, b)| &a.1 != b);
        if bad {
            let first_bad = frames.iter().zip(images.iter()).position(|(a, b)| &a.1 != b);
            o.violation(viol("roundtrip-through-own-decoder-differs", vec![("why", jstr(&format!("{} of {} frames decoded, first differing frame {:?}, end {}", frames.len(), images.len(), first_bad, end))),
                ("filter", filter.to_string()), ("emitted", jstr(&hex(&bytes)))]));
        }
    }
}

/// the stream writer with the filter setting changed between rows (StreamWriter::set_filter): every row is filtered against the row above it,
/// whatever filter that row itself was written with - the stream decodes to the bytes given, by the crate and by the reference decoder
pub fn filter_switch_cases(o: &mut Out, rng: &mut Rng, thorough: bool) {
    use std::io::Write;
    for k in 0..(if thorough { 600 } else { 60 }) {
        let (color, depth) = COLOR_DEPTHS[(k % 15) as usize];
        let (w, h) = (rng.range(1, 10) as u32, rng.range(2, 8) as u32);
        let palette = if color == 3 { Some((0..3 * (1usize << depth.min(8))).map(|i| (i * 5) as u8).collect::<Vec<u8>>()) } else { None };
        let rb = row_bytes(color, depth, w as u64) as usize;
        let data = rng.bytes(rb * h as usize);
        // a plan: the filter setting in force for each row (runs of NoFilter followed by predicting filters are the interesting part)
        let plan: Vec<u8> = (0..h).map(|r| if k % 3 == 0 { if r % 2 == 0 { 0 } else { *rng.pick(&[2u8, 3, 4, 5]) } } else { rng.below(6) as u8 }).collect();
        o.mark(&format!("filter switches c{}d{} {}x{} plan={:?} {}", color, depth, w, h, plan, hex(&data)));
        let sink = Sink::new(0, None, false);
        let r = guarded(|| -> Result<(), String> {
            let mut e = png::Encoder::new(sink.clone(), w, h);
            e.set_color(color_of(color));
            e.set_depth(depth_of(depth));
            if let Some(p) = &palette { e.set_palette(p.clone()); }
            set_compression(&mut e, 2 + (k % 9) as u8);
            let mut wr = e.write_header().map_err(|er| format!("{:?}", er))?;
            let mut sw = wr.stream_writer().map_err(|er| format!("{:?}", er))?;
            for (r, f) in plan.iter().enumerate() {
                sw.set_filter(filter_of(*f));
                sw.write_all(&data[r * rb..(r + 1) * rb]).map_err(|er| format!("write: {:?}", er))?;
            }
            sw.finish().map_err(|er| format!("{:?}", er))?;
            drop(wr);
            Ok(())
        });
        o.direct_checks += 1;
        o.count("filter-switches");
        match r {
            Ok(Ok(())) => {}
            Ok(Err(e)) => { o.violation(viol("encoder-refused-a-legal-image", vec![("why", jstr(&e))])); continue; }
            Err(m) => { o.violation(viol("encoder-panicked", vec![("why", jstr(&m))])); continue; }
        }
        let bytes = sink.0.borrow().accepted.clone();
        let (end, frames) = decode_frames(&bytes, Opts::default(), 0, 0);
        let own_ok = frames.first().map_or(false, |f| f.1 == data);
        let ref_ok = match reference_decode(&bytes, w, h, color, depth) { Ok((px, _)) => px == data, Err(_) => false };
        if !own_ok || !ref_ok {
            o.violation(viol(if !own_ok { "roundtrip-through-own-decoder-differs" } else { "roundtrip-through-reference-decoder-differs" }, vec![("why", jstr(&format!("filter plan {:?}; end {}", plan, end))),
                ("given", jstr(&hex(&data))), ("emitted", jstr(&hex(&bytes)))]));
        }
    }
}

/// the whole-image call with every filter setting over every colour type / bit depth, rows given with arbitrary bits in the unused low bits of
/// the last byte of sub-byte rows: whatever the encoder does with those bits, it must filter each row against the row above AS IT WRITES IT -
/// the pixels (padding bits masked) must come back, through the crate's decoder and through the reference decoder
pub fn whole_image_filter_cases(o: &mut Out, rng: &mut Rng, thorough: bool) {
    for k in 0..(if thorough { 1800 } else { 180 }) {
        let (color, depth) = COLOR_DEPTHS[(k % 15) as usize];
        let (w, h) = (rng.range(1, 13) as u32, rng.range(2, 7) as u32);
        let palette = if color == 3 { Some((0..3 * (1usize << depth.min(8))).map(|i| (i * 5) as u8).collect::<Vec<u8>>()) } else { None };
        let rb = row_bytes(color, depth, w as u64) as usize;
        let data = rng.bytes(rb * h as usize);
        let filter = ((k / 15) % 6) as u8;
        let comp = 2 + ((k / 3) % 9) as u8;
        o.mark(&format!("whole-image filter c{}d{} {}x{} f{} comp{} {}", color, depth, w, h, filter, comp, hex(&data)));
        let sink = Sink::new(0, None, false);
        let r = guarded(|| -> Result<(), String> {
            let mut e = png::Encoder::new(sink.clone(), w, h);
            e.set_color(color_of(color));
            e.set_depth(depth_of(depth));
            if let Some(p) = &palette { e.set_palette(p.clone()); }
            set_compression(&mut e, comp);
            e.set_filter(filter_of(filter));
            let mut wr = e.write_header().map_err(|er| format!("{:?}", er))?;
            wr.write_image_data(&data).map_err(|er| format!("image: {:?}", er))?;
            wr.finish().map_err(|er| format!("{:?}", er))
        });
        o.direct_checks += 1;
        o.count("whole-image-filter-settings");
        match r {
            Ok(Ok(())) => {}
            Ok(Err(e)) => { o.violation(viol("encoder-refused-a-legal-image", vec![("why", jstr(&e))])); continue; }
            Err(m) => { o.violation(viol("encoder-panicked", vec![("why", jstr(&m))])); continue; }
        }
        let bytes = sink.0.borrow().accepted.clone();
        let row_bits = w as usize * samples(color) * depth as usize;
        let want = crate::ops::mask_padding(&data, rb, row_bits);
        let (end, frames) = decode_frames(&bytes, Opts::default(), 0, 0);
        let own_ok = frames.first().map_or(false, |f| crate::ops::mask_padding(&f.1, rb, row_bits) == want);
        let ref_ok = match reference_decode(&bytes, w, h, color, depth) { Ok((px, _)) => crate::ops::mask_padding(&px, rb, row_bits) == want, Err(_) => false };
        if !own_ok || !ref_ok {
            o.violation(viol(if !own_ok { "roundtrip-through-own-decoder-differs" } else { "roundtrip-through-reference-decoder-differs" }, vec![("why", jstr(&format!("whole-image call, filter setting {}, compression {}; end {}", filter, comp, end))),
                ("given", jstr(&hex(&data))), ("emitted", jstr(&hex(&bytes)))]));
        }
    }
}

/// images whose filtered size is a little above 32 / 64 / 128 KiB and whose last rows are blank or a single colour (canvas margins): the
/// decoder's inflater hands the tail of such a stream over only with the end-of-sequence flush - the encoder's own output must still decode
/// to the bytes given, with every compression setting and filter, through the whole-image call and the stream writer
pub fn compressible_tail_cases(o: &mut Out, rng: &mut Rng, thorough: bool) {
    use std::io::Write;
    let shapes: Vec<(u32, u32, u8, u8)> = vec![(128, 256, 0, 8), (32, 256, 6, 8), (181, 182, 0, 8), (256, 512, 0, 8), (1000, 132, 0, 8), (127, 258, 0, 8), (255, 130, 0, 8), (90, 122, 2, 8)];
    let mut k = 0u32;
    for (w, h, color, depth) in shapes {
        for content in 0..3 {
            for rep in 0..(if thorough { 6 } else { 2 }) {
                k += 1;
                let rb = row_bytes(color, depth, w as u64) as usize;
                let mut data = vec![0u8; rb * h as usize];
                // 0: blank, 1: noise with a blank bottom margin, 2: gradient with a single-colour margin
                let margin = rng.range(2, 40) as usize;
                if content == 1 { let n = rb * (h as usize - margin); let v = rng.bytes(n); data[..n].copy_from_slice(&v); }
                if content == 2 { for (i, b) in data.iter_mut().enumerate() { *b = if i / rb < h as usize - margin { ((i / rb) as u8).wrapping_add((i % rb / 16) as u8) } else { 0x33 }; } }
                let filter = ((k + rep) % 6) as u8;
                let comp = *rng.pick(&[2u8, 3, 4, 6, 8, 10, 13]);
                let streamed = (k + rep) % 4 == 3;
                o.mark(&format!("compressible tail c{}d{} {}x{} content{} f{} comp{} streamed={}", color, depth, w, h, content, filter, comp, streamed));
                let sink = Sink::new(0, None, false);
                let r = guarded(|| -> Result<(), String> {
                    let mut e = png::Encoder::new(sink.clone(), w, h);
                    e.set_color(color_of(color));
                    e.set_depth(depth_of(depth));
                    set_compression(&mut e, comp);
                    e.set_filter(filter_of(filter));
                    let mut wr = e.write_header().map_err(|er| format!("{:?}", er))?;
                    if streamed {
                        let mut sw = wr.stream_writer().map_err(|er| format!("{:?}", er))?;
                        sw.write_all(&data).map_err(|er| format!("write: {:?}", er))?;
                        sw.finish().map_err(|er| format!("{:?}", er))?;
                    } else {
                        wr.write_image_data(&data).map_err(|er| format!("image: {:?}", er))?;
                    }
                    wr.finish().map_err(|er| format!("{:?}", er))
                });
                o.direct_checks += 1;
                o.count("compressible-tails");
                match r {
                    Ok(Ok(())) => {}
                    Ok(Err(e)) => { o.violation(viol("encoder-refused-a-legal-image", vec![("why", jstr(&e))])); continue; }
                    Err(m) => { o.violation(viol("encoder-panicked", vec![("why", jstr(&m))])); continue; }
                }
                let bytes = sink.0.borrow().accepted.clone();
                for sched in [vec![0usize], vec![4096], vec![500]] {
                    let (end, frames) = decode_frames(&bytes, Opts::default(), 0, 0x5A);
                    let _ = &sched;
                    if frames.first().map_or(true, |f| f.1 != data) {
                        o.violation(viol("roundtrip-through-own-decoder-differs", vec![("why", jstr(&format!("{}x{} c{}d{} content {} filter {} compression {} streamed {}: {} frames decoded, end {}", w, h, color, depth, content, filter, comp, streamed, frames.len(), end))),
                            ("emitted_len", bytes.len().to_string())]));
                        break;
                    }
                }
            }
        }
    }
}

/// StreamWriter::write call by call (still images): the number of bytes every call accepts and the bytes handed to the compressor
/// (= the inflated IDAT stream) vs Model/StreamWriterBuf.v sw_trace
fn stream_trace_cases(o: &mut Out, rng: &mut Rng, thorough: bool) {
    use std::io::Write;
    for k in 0..(if thorough { 1500 } else { 120 }) {
        let (color, depth) = COLOR_DEPTHS[(k % 15) as usize];
        let (w, h) = (rng.range(1, 9) as u32, rng.range(1, 5) as u32);
        let filter = (k / 15 % 6) as u8;
        let compression = 2 + (k % 10) as u8;
        let palette = if color == 3 { Some((0..3 * (1usize << depth.min(8))).map(|i| (i * 7) as u8).collect::<Vec<u8>>()) } else { None };
        let rb = row_bytes(color, depth, w as u64) as usize;
        let data = rng.bytes(rb * h as usize);
        let over = k % 7 == 3;   // offer more than the image holds at the end
        let size = *rng.pick(&[1usize, 3, 64, 4096]);
        o.mark(&format!("swtrace c{}d{} {}x{} f{} z{} size{} {}", color, depth, w, h, filter, compression, size, hex(&data)));
        let sink = Sink::new(0, None, false);
        let r = guarded(|| -> Result<(Vec<String>, Vec<String>, String), String> {
            let mut e = png::Encoder::new(sink.clone(), w, h);
            e.set_color(color_of(color));
            e.set_depth(depth_of(depth));
            if let Some(p) = &palette { e.set_palette(p.clone()); }
            set_compression(&mut e, compression);
            e.set_filter(filter_of(filter));
            // with sequence validation a still image takes no data beyond its last row (without it the writer starts another image: not this model)
            e.validate_sequence(over);
            let mut wr = e.write_header().map_err(|er| format!("{:?}", er))?;
            let mut sw = wr.stream_writer_with_size(size).map_err(|er| format!("{:?}", er))?;
            let (mut offered, mut accepted) = (vec![], vec![]);
            let mut pos = 0usize;
            let mut guard = 0;
            while pos < data.len() && guard < 10_000 {
                guard += 1;
                let want = match rng.below(6) { 0 => 0, 1 => 1, 2 => rb, 3 => rb + 1, 4 => rng.range(1, 3 * rb as u64 + 2) as usize, _ => rng.range(1, 5) as usize };
                let end = (pos + want).min(data.len());
                let piece = &data[pos..end];
                offered.push(if piece.is_empty() { "-".to_string() } else { hex(piece) });
                match sw.write(piece) {
                    Ok(n) => { accepted.push(n.to_string()); pos += n; }
                    Err(_) => { accepted.push("-1".into()); break; }
                }
            }
            if over {
                offered.push("2a2b".into());
                accepted.push(match sw.write(&[0x2a, 0x2b]) { Ok(n) => n.to_string(), Err(_) => "-1".into() });
            }
            let fin = match sw.finish() { Ok(()) => "ok".to_string(), Err(er) => format!("{:?}", er) };
            drop(wr);
            Ok((offered, accepted, fin))
        });
        o.direct_checks += 1;
        let (offered, accepted, fin) = match r {
            Ok(Ok(x)) => x,
            Ok(Err(e)) => { o.violation(viol("encoder-refused-a-legal-image", vec![("why", jstr(&e))])); continue; }
            Err(m) => { o.violation(viol("encoder-panicked", vec![("why", jstr(&m))])); continue; }
        };
        let bytes = sink.0.borrow().accepted.clone();
        let raw = match crate::validator::parse_strict(&bytes) {
            Ok(chunks) => {
                let z: Vec<u8> = chunks.iter().filter(|c| &c.ty == b"IDAT").flat_map(|c| c.data.to_vec()).collect();
                match crate::validator::inflate_exact(&z) { Ok(r) => hex(&r), Err(e) => format!("INFLATE-ERR {}", e) }
            }
            Err(e) => format!("PARSE-ERR {}", e),
        };
        if fin != "ok" {
            o.violation(viol("encoder-refused-a-legal-image", vec![("why", jstr(&format!("finish: {}", fin))), ("offered", jstr(&offered.join(",")))]));
            continue;
        }
        o.case(&format!("swtrace {} {} {} {} {}", filter, bpp_filter(color, depth), rb, h, offered.join(",")), &format!("{}|{}", accepted.join(","), raw),
            &format!("sw-{}-{}-{}-{}", filter, color, depth, over), offered.len() > 1);
        o.count("stream-writer-call-traces");
    }
}

/// the chunk-packaging layer driven call by call through the hook vs Model/StreamWriterBuf.v cw_trace
fn chunk_writer_cases(o: &mut Out, rng: &mut Rng, thorough: bool) {
    for k in 0..(if thorough { 3000 } else { 250 }) {
        let cap = if k % 10 == 9 { *rng.pick(&[5000usize, 9000, 40_000]) } else { *rng.pick(&[0usize, 1, 2, 3, 5, 8, 13, 64, 4096]) };
        let nops = rng.range(1, 14) as usize;
        let mut ops: Vec<Option<Vec<u8>>> = vec![];
        for _ in 0..nops {
            // chunk buffers above the default size: bursts of a few KiB, so that a burst arrives while part of a chunk is staged
            if cap > 4096 {
                ops.push(if rng.chance(1, 8) { None } else { let n = rng.range(500, 3500) as usize; Some(rng.bytes(n)) });
                continue;
            }
            ops.push(match rng.below(8) {
                0 => None,
                1 => Some(vec![]),
                2 => Some(rng.bytes(cap.max(1))),
                3 => Some(rng.bytes(2 * cap + 3)),
                _ => { let n = rng.range(1, 20) as usize; Some(rng.bytes(n)) }
            });
        }
        let text: Vec<String> = ops.iter().map(|x| match x { None => "F".to_string(), Some(d) if d.is_empty() => "-".to_string(), Some(d) => hex(d) }).collect();
        o.mark(&format!("cwtrace cap={} {}", cap, text.join(",")));
        let sink = Sink::new(0, None, false);
        let r = guarded(|| -> Result<Vec<String>, String> {
            let mut e = png::Encoder::new(sink.clone(), 1, 1);
            e.set_color(png::ColorType::Grayscale);
            e.set_depth(png::BitDepth::Eight);
            let mut wr = e.write_header().map_err(|er| format!("{:?}", er))?;
            let res = wr.verif_chunk_writer_run(cap, &ops);
            std::mem::forget(wr);   // no IEND: only what the layer itself emitted is looked at
            Ok(res)
        });
        o.direct_checks += 1;
        let res = match r { Ok(Ok(x)) => x, Ok(Err(e)) => { o.violation(viol("encoder-refused-a-legal-image", vec![("why", jstr(&e))])); continue; }
            Err(m) => { o.violation(viol("encoder-panicked", vec![("why", jstr(&m)), ("ops", jstr(&text.join(",")))])); continue; } };
        let results: Vec<String> = res.iter().map(|x| if x == "ok" { "-1".to_string() } else if let Some(n) = x.strip_prefix("ok:") { n.to_string() } else { "-2".to_string() }).collect();
        let bytes = sink.0.borrow().accepted.clone();
        let chunks = match crate::pngbuild::parse(&bytes) { Some(c) => c, None => { o.violation(viol("encoder-output-not-conformant", vec![("why", jstr("unparsable")), ("emitted", jstr(&hex(&bytes)))])); continue; } };
        let idat: Vec<String> = chunks.iter().filter(|c| &c.ty == b"IDAT").map(|c| hex(&c.data)).collect();
        if chunks.iter().any(|c| &c.ty != b"IDAT" && &c.ty != b"IHDR") {
            o.violation(viol("encoder-output-not-conformant", vec![("why", jstr("the chunk layer emitted a chunk that is not IDAT")), ("emitted", jstr(&hex(&bytes)))]));
        }
        o.case(&format!("cwtrace {} {}", cap, text.join(",")), &format!("{}|{}", results.join(","), idat.join(",")), &format!("cw-{}-{}", cap, nops % 5), k % 2 == 0 || nops > 2);
        o.count("chunk-writer-call-traces");
    }
}

pub fn run(a: &Args) {
    let mut o = Out::new(&a.out);
    let mut rng = Rng::new(a.seed);
    let thorough = a.tier == "thorough";
    // all 15 colour/depth pairs x widths crossing the 32-byte filter chunk and its remainders x heights x 6 filters x compression modes
    let reps = if thorough { 60 } else { 3 };
    for &(color, depth) in COLOR_DEPTHS.iter() {
        for filter in 0..6u8 {
            for rep in 0..reps {
                let w = if rep % 3 == 0 { rng.range(1, 12) as u32 } else { rng.range(1, 70) as u32 };
                let h = rng.range(1, 9) as u32;
                // filter 0 with NoCompression-like modes is the stored fast path; every mode must be lossless
                let cfg = WCfg { w, h, color, depth, animated: None, sep: false, compression: rng.below(17) as u8, filter, validate: false,
                    palette: if color == 3 { Some((0..3 * (1usize << depth.min(8))).map(|_| rng.byte()).collect()) } else { None } };
                let stream = if rep % 2 == 1 { Some(*rng.pick(&[1usize, 2, 3, 7, 32, 64, 4096])) } else { None };
                let parts: Vec<usize> = if rng.chance(1, 2) { vec![] } else { (0..rng.range(1, 4)).map(|_| rng.range(1, 50) as usize).collect() };
                let short = if rng.chance(1, 3) { rng.range(1, 11) as usize } else { 0 };
                one(&mut o, &mut rng, &cfg, stream, parts, short, true);
            }
        }
    }
    // every width 1..70 (all row lengths modulo the 32-byte vector chunk) for every pixel size, with the filters that look left
    for &(color, depth) in COLOR_DEPTHS.iter() {
        for w in 1..=70u32 {
            for filter in [1u8, 3, 4, 5] {
                if !thorough && (w + filter as u32 + color as u32) % 2 == 0 && w > 8 {
                    continue;
                }
                let cfg = WCfg { w, h: 2, color, depth, animated: None, sep: false, compression: *rng.pick(&[3u8, 8, 11]), filter, validate: false,
                    palette: if color == 3 { Some((0..3 * (1usize << depth.min(8))).map(|_| rng.byte()).collect()) } else { None } };
                one(&mut o, &mut rng, &cfg, if w % 5 == 0 { Some(64) } else { None }, vec![], 0, w <= 12);
            }
        }
    }
    // every compression setting with every filter on one shape
    for compression in 0..17u8 {
        for filter in 0..6u8 {
            let (color, depth) = *rng.pick(&COLOR_DEPTHS);
            let cfg = WCfg { w: rng.range(1, 40) as u32, h: rng.range(1, 6) as u32, color, depth, animated: None, sep: false, compression, filter, validate: false,
                palette: if color == 3 { Some((0..3 * (1usize << depth.min(8))).map(|_| rng.byte()).collect()) } else { None } };
            one(&mut o, &mut rng, &cfg, if filter % 2 == 0 { None } else { Some(64) }, vec![], 0, false);
        }
    }
    // rows longer than 4 KiB / 16 KiB / 64 KiB (vector chunks, adaptive heuristics, zlib windows)
    let big: Vec<(u32, u32, u8, u8)> = if thorough { vec![(4200, 3, 6, 8), (5000, 2, 6, 8), (9000, 2, 0, 16), (7000, 3, 2, 8), (70000, 2, 0, 8), (20000, 2, 4, 16)] } else { vec![(4200, 3, 6, 8), (9000, 2, 0, 16), (70000, 2, 0, 8)] };
    for (w, h, color, depth) in big {
        for filter in [5u8, 4, 1] {
            let cfg = WCfg { w, h, color, depth, animated: None, sep: false, compression: *rng.pick(&[1u8, 3, 8, 14]), filter, validate: false, palette: None };
            one(&mut o, &mut rng, &cfg, None, vec![], 0, false);
            one(&mut o, &mut rng, &cfg, Some(4096), vec![10000, 3], 0, false);
            o.count("long-rows");
        }
    }
    // stream writes that are not aligned to rows: a first write ending in the middle of a row, then a write carrying whole rows and more
    for &(color, depth, w) in &[(2u8, 8u8, 40u32), (0, 8, 64), (6, 16, 9), (0, 1, 600), (3, 4, 130), (4, 8, 33)] {
        for parts in [vec![37usize, 1 << 20], vec![1, 1 << 20], vec![63, 64, 1 << 20], vec![65, 1, 1 << 20], vec![200, 7]] {
            for filter in [0u8, 4, 5] {
                let cfg = WCfg { w, h: 7, color, depth, animated: None, sep: false, compression: *rng.pick(&[1u8, 3, 8, 14]), filter, validate: false,
                    palette: if color == 3 { Some((0..3 * (1usize << depth.min(8))).map(|_| rng.byte()).collect()) } else { None } };
                let sz = *rng.pick(&[64usize, 4096]);
                one(&mut o, &mut rng, &cfg, Some(sz), parts.clone(), 0, false);
                o.count("unaligned-stream-writes");
            }
        }
    }
    // chunk buffers larger than 32 KiB with more than 32 KiB of compressed data (noise does not compress)
    for size in [40_000usize, 65_536, 1 << 20] {
        let cfg = WCfg { w: 300, h: if thorough { 300 } else { 180 }, color: 0, depth: 8, animated: None, sep: false, compression: *rng.pick(&[3u8, 8, 14]), filter: 0, validate: false, palette: None };
        crate::util::NOISE_ONLY.with(|c| c.set(true));
        one(&mut o, &mut rng, &cfg, Some(size), vec![5000], 0, false);
        crate::util::NOISE_ONLY.with(|c| c.set(false));
        o.count("large-chunk-buffers");
    }
    with_info_cases(&mut o, &mut rng, thorough);
    whole_image_filter_cases(&mut o, &mut rng, thorough);
    compressible_tail_cases(&mut o, &mut rng, thorough);
    filter_switch_cases(&mut o, &mut rng, thorough);
    streamed_animation_cases(&mut o, &mut rng, thorough);
    stream_trace_cases(&mut o, &mut rng, thorough);
    chunk_writer_cases(&mut o, &mut rng, thorough);
    o.mark("done");
    o.finish();
}

pub fn replay(_case: &str) -> String {
    "unknown-case".into()
}
