//! C01: decoded pixels equal the specification's reconstruction, geometry equals the header's.
//! Images built by the independent reference writer (all colour/depth pairs, both interlace methods, any
//! per-row filters, IDAT splits incl. empty chunks, 7 deflate producers, hand-built far back-references,
//! data larger than the 32 KiB / 128 KiB internal buffers, block/IDAT boundaries aligned to scanlines).
use crate::ops::mask_padding;
use crate::pngbuild::*;
use crate::readerrun::*;
use crate::refimpl::*;
use crate::streamrun::*;
use crate::util::*;

fn viol(kind: &str, detail: Vec<(&str, String)>) -> String {
    let mut kv = vec![("kind", jstr(kind)), ("class", jstr(kind))];
    kv.extend(detail);
    jobj(&kv)
}

/// LSB-first bit writer for hand-built deflate blocks
struct BitW {
    out: Vec<u8>,
    acc: u32,
    n: u32,
}
impl BitW {
    fn new() -> BitW {
        BitW { out: vec![], acc: 0, n: 0 }
    }
    fn bits(&mut self, v: u32, k: u32) {
        for i in 0..k {
            self.acc |= ((v >> i) & 1) << self.n;
            self.n += 1;
            if self.n == 8 {
                self.out.push(self.acc as u8);
                self.acc = 0;
                self.n = 0;
            }
        }
    }
    /// Huffman codes are packed most significant bit first
    fn code(&mut self, code: u32, len: u32) {
        for i in (0..len).rev() {
            self.bits((code >> i) & 1, 1);
        }
    }
    fn fixed_lit(&mut self, sym: u32) {
        match sym {
            0..=143 => self.code(0x30 + sym, 8),
            144..=255 => self.code(0x190 + (sym - 144), 9),
            256..=279 => self.code(sym - 256, 7),
            _ => self.code(0xC0 + (sym - 280), 8),
        }
    }
    fn align(&mut self) {
        if self.n > 0 {
            self.out.push(self.acc as u8);
            self.acc = 0;
            self.n = 0;
        }
    }
}

/// A zlib stream for `data` (which must satisfy data[i] == data[i - dist] for i >= start): stored blocks for
/// data[..start], then one fixed-Huffman block made of <length 258, distance dist> matches and literals.
pub fn zlib_far_matches(data: &[u8], start: usize, dist: usize) -> Vec<u8> {
    assert!(dist >= 24577 && dist <= 32768 && start >= dist);
    let mut v = vec![0x78, 0x01];
    for b in data[..start].chunks(65535) {
        v.push(0);
        v.extend_from_slice(&(b.len() as u16).to_le_bytes());
        v.extend_from_slice(&(!(b.len() as u16)).to_le_bytes());
        v.extend_from_slice(b);
    }
    let mut w = BitW::new();
    w.bits(1, 1); // BFINAL
    w.bits(1, 2); // fixed Huffman
    let mut i = start;
    while i < data.len() {
        if data.len() - i >= 258 {
            w.fixed_lit(285); // length 258, no extra bits
            w.code(29, 5); // distance code 29: 24577..32768, 13 extra bits
            w.bits((dist - 24577) as u32, 13);
            i += 258;
        } else {
            w.fixed_lit(data[i] as u32);
            i += 1;
        }
    }
    w.fixed_lit(256);
    w.align();
    v.extend_from_slice(&w.out);
    v.extend_from_slice(&adler32(data).to_be_bytes());
    v
}

/// A zlib stream for CONSTANT data: one fixed-Huffman block, a literal followed by <length 258, distance 1> matches and literals for the rest.
/// (1032 bytes of data per 5 compressed bytes: the inflater can be holding hundreds of bytes of output back when its input has run dry.)
pub fn zlib_fixed_run(data: &[u8]) -> Vec<u8> {
    assert!(data.windows(2).all(|w| w[0] == w[1]));
    let mut v = vec![0x78, 0x01];
    let mut w = BitW::new();
    w.bits(1, 1);
    w.bits(1, 2);
    let mut i = 0;
    if !data.is_empty() {
        w.fixed_lit(data[0] as u32);
        i = 1;
    }
    while i < data.len() {
        if data.len() - i >= 258 {
            w.fixed_lit(285);
            w.code(0, 5); // distance 1
            i += 258;
        } else {
            w.fixed_lit(data[i] as u32);
            i += 1;
        }
    }
    w.fixed_lit(256);
    w.align();
    v.extend_from_slice(&w.out);
    v.extend_from_slice(&adler32(data).to_be_bytes());
    v
}

/// A TRUNCATED zlib stream: one fixed-Huffman block with the literals `lits`, then `matches` x <length 258, distance 1>, and nothing more (no
/// end-of-block, no Adler-32).  With 2 literals and 127+ matches the inflater's 32 KiB output buffer is exactly full while a match is still
/// pending inside it: the end-of-sequence flush then produces more rows AND fails.
pub fn zlib_fixed_run_truncated(lits: &[u8], matches: usize) -> Vec<u8> {
    let mut v = vec![0x78, 0x01];
    let mut w = BitW::new();
    w.bits(1, 1);
    w.bits(1, 2);
    for &l in lits { w.fixed_lit(l as u32); }
    for _ in 0..matches { w.fixed_lit(285); w.code(0, 5); }
    w.align();
    v.extend_from_slice(&w.out);
    v
}

/// stored blocks of `block` bytes each, returned as the byte strings to put into consecutive IDAT chunks
/// (chunk boundaries = block boundaries)
pub fn zlib_stored_pieces(data: &[u8], block: usize) -> Vec<Vec<u8>> {
    let blocks: Vec<&[u8]> = data.chunks(block.min(65535).max(1)).collect();
    let mut pieces = vec![];
    for (i, b) in blocks.iter().enumerate() {
        let mut p = if i == 0 { vec![0x78, 0x01] } else { vec![] };
        p.push(if i + 1 == blocks.len() { 1 } else { 0 });
        p.extend_from_slice(&(b.len() as u16).to_le_bytes());
        p.extend_from_slice(&(!(b.len() as u16)).to_le_bytes());
        p.extend_from_slice(b);
        if i + 1 == blocks.len() {
            p.extend_from_slice(&adler32(data).to_be_bytes());
        }
        pieces.push(p);
    }
    pieces
}

pub struct Img {
    pub name: String,
    pub file: Vec<u8>,
    pub spec: ImageSpec,
    pub z: Vec<u8>,
    pub want: Vec<u8>,
}

fn assemble_img(s: &ImageSpec, pieces: Vec<Vec<u8>>, rng: &mut Rng) -> Vec<u8> {
    let mut chunks = vec![ihdr(s.w, s.h, s.depth, s.color, s.interlaced as u8)];
    if s.color == 3 {
        chunks.push(palette_chunk(1 << s.depth.min(8), rng));
    }
    for p in pieces {
        chunks.push(Chunk::new(b"IDAT", p));
    }
    chunks.push(Chunk::new(b"IEND", vec![]));
    assemble(&chunks)
}

pub fn random_image(rng: &mut Rng, w: u32, h: u32, color: u8, depth: u8, interlaced: bool) -> Img {
    let s = ImageSpec { w, h, color, depth, interlaced };
    let rows = random_rows(&s, w, h, rng);
    let nrows = if interlaced { adam7_rows_ref(w, h).len() } else { h as usize };
    let fmode = rng.below(7);
    let filters: Vec<u8> = (0..nrows.max(1)).map(|_| if fmode < 5 { fmode as u8 } else { rng.below(5) as u8 }).collect();
    let stream = filtered_stream(&s, w, h, &rows, &filters);
    let ck = rng.below(7);
    let z = compress(&stream, ck, rng);
    let nsplit = *rng.pick(&[1usize, 1, 2, 3, 6]);
    let pieces = split_random(&z, nsplit, rng, true);
    let file = assemble_img(&s, pieces, rng);
    Img { name: format!("c{}d{}{}-{}x{}-f{}-z{}-s{}", color, depth, if interlaced { "i" } else { "n" }, w, h, fmode, ck, nsplit), file, want: expected_pixels(&s, w, h, &rows), spec: s, z }
}

/// gray8 image whose filtered stream has period 32768 (row length 1024) so that maximal-distance matches apply
pub fn far_match_image(rng: &mut Rng, h: u32, dist: usize, nsplit: usize) -> Img {
    let w = 1023u32;
    let s = ImageSpec { w, h, color: 0, depth: 8, interlaced: false };
    let period_rows = 32usize; // 32 * 1024 = 32768 bytes
    let ft: Vec<u8> = (0..period_rows).map(|_| rng.below(5) as u8).collect();
    let mut stream: Vec<u8> = vec![];
    for r in 0..period_rows {
        stream.push(ft[r]);
        stream.extend(rng.bytes(w as usize));
    }
    let total = (w as usize + 1) * h as usize;
    // continue with period `dist` (for dist = 32768 rows repeat exactly; for smaller distances the filter bytes must still land on legal values,
    // so only dist = 32768 is used with arbitrary rows)
    while stream.len() < total {
        let b = stream[stream.len() - dist];
        stream.push(b);
    }
    // reference reconstruction of the pixel rows
    let mut want = vec![];
    let mut prior: Vec<u8> = vec![];
    for r in 0..h as usize {
        let rec = &stream[r * 1024..(r + 1) * 1024];
        let row = recon_ref(rec[0], 1, &prior, &rec[1..]);
        want.extend_from_slice(&row);
        prior = row;
    }
    let z = zlib_far_matches(&stream, 32768, dist);
    let pieces = if nsplit <= 1 { vec![z.clone()] } else { z.chunks(nsplit).map(|c| c.to_vec()).collect() };
    let file = assemble_img(&s, pieces, rng);
    Img { name: format!("farmatch-{}x{}-d{}-split{}", w, h, dist, nsplit), file, spec: s, z, want }
}

/// rows of `rowlen` bytes; stored blocks of exactly `rows_per_block` rows, one block per IDAT chunk
pub fn aligned_image(rng: &mut Rng, w: u32, h: u32, color: u8, depth: u8, rows_per_block: usize, fixed_filter: Option<u8>) -> Img {
    let s = ImageSpec { w, h, color, depth, interlaced: false };
    let rows = random_rows(&s, w, h, rng);
    let filters: Vec<u8> = (0..h as usize).map(|_| fixed_filter.unwrap_or_else(|| rng.range(2, 4) as u8)).collect();
    let stream = filtered_stream(&s, w, h, &rows, &filters);
    let rowlen = s.row_bytes(w) + 1;
    let pieces = zlib_stored_pieces(&stream, rowlen * rows_per_block);
    let z: Vec<u8> = pieces.iter().flat_map(|p| p.clone()).collect();
    let file = assemble_img(&s, pieces, rng);
    Img { name: format!("aligned-c{}d{}-{}x{}-rpb{}", color, depth, w, h, rows_per_block), file, spec: s.clone(), z, want: expected_pixels(&s, w, h, &rows) }
}

pub fn check_image(o: &mut Out, im: &Img, sched: &[usize], to_model: bool) {
    o.mark(&format!("image {} sched={:?} {}", im.name, sched, if im.file.len() < 6000 { hex(&im.file) } else { format!("(len {})", im.file.len()) }));
    let s = &im.spec;
    let r = guarded(|| -> Result<(String, Vec<u8>), String> {
        let mut rd = open_decoder(PieceReader::new(im.file.clone(), sched), Opts::default(), 0, None).read_info().map_err(|e| res_err(&e))?;
        let (ct, bd) = rd.output_color_type();
        let geo = format!("{}x{} {}:{} line={} buf={}", rd.info().width, rd.info().height, ct as u8, bd as u8, rd.output_line_size(rd.info().width), rd.output_buffer_size());
        let mut buf = vec![0u8; rd.output_buffer_size()];
        let oi = rd.next_frame(&mut buf).map_err(|e| res_err(&e))?;
        let geo = format!("{} | {}x{} {}:{} line={} n={}", geo, oi.width, oi.height, oi.color_type as u8, oi.bit_depth as u8, oi.line_size, oi.buffer_size());
        buf.truncate(oi.buffer_size());
        Ok((geo, buf))
    });
    o.direct_checks += 1;
    let rb = s.row_bytes(s.w);
    let want_geo = format!("{}x{} {}:{} line={} buf={} | {}x{} {}:{} line={} n={}", s.w, s.h, s.color, s.depth, rb, rb * s.h as usize, s.w, s.h, s.color, s.depth, rb, rb * s.h as usize);
    let short = |b: &[u8]| if b.len() <= 2000 { hex(b) } else { format!("(len {}, hash {})", b.len(), hash(b)) };
    let (got_geo, got_px) = match &r {
        Ok(Ok((g, p))) => (g.clone(), Some(p.clone())),
        Ok(Err(e)) => (e.clone(), None),
        Err(m) => (format!("PANIC {}", m), None),
    };
    let bad = match &got_px {
        None => Some("valid-image-rejected"),
        Some(p) => {
            if got_geo != want_geo {
                Some("reported-geometry-differs-from-header")
            } else if *p != im.want {
                Some("decoded-pixels-differ-from-specification")
            } else {
                None
            }
        }
    };
    if let Some(kind) = bad {
        let first_diff = got_px.as_ref().and_then(|p| p.iter().zip(im.want.iter()).position(|(a, b)| a != b));
        o.violation(viol(kind, vec![("image", jstr(&im.name)), ("schedule", jstr(&format!("{:?}", sched))), ("geometry", jstr(&got_geo)), ("expected_geometry", jstr(&want_geo)),
            ("first_differing_byte", jstr(&format!("{:?}", first_diff))), ("file", jstr(&short(&im.file))), ("impl", jstr(&got_px.as_ref().map(|p| short(p)).unwrap_or_default())), ("spec", jstr(&short(&im.want)))]));
    }
    // the row-level API: every row handed out by next_interlaced_row is exactly the scanline of the (pass) image - its length is the line size
    // of that pass, its bytes the pixels the specification's reconstruction puts there (padding bits of the last byte not compared)
    if got_px.is_some() && bad.is_none() && (s.w as u64 * s.h as u64) <= (1 << 20) {
        let bpp = samples(s.color) * s.depth as usize;
        let r = guarded(|| -> Result<Vec<(Option<String>, Vec<u8>)>, String> {
            let mut rd = open_decoder(PieceReader::new(im.file.clone(), sched), Opts::default(), 0, None).read_info().map_err(|e| res_err(&e))?;
            let mut rows = vec![];
            while let Some(row) = rd.next_interlaced_row().map_err(|e| res_err(&e))? {
                let a7 = match row.interlace() { png::InterlaceInfo::Adam7(a) => Some(format!("{:?}", a)), _ => None };
                rows.push((a7, row.data().to_vec()));
            }
            Ok(rows)
        });
        o.direct_checks += 1;
        let get_px = |x: usize, y: usize| -> Vec<bool> { (0..bpp).map(|b| { let bit = x * bpp + b; (im.want[y * rb + bit / 8] >> (7 - bit % 8)) & 1 == 1 }).collect() };
        let pack = |bits: &[bool]| -> Vec<u8> { let mut v = vec![0u8; (bits.len() + 7) / 8]; for (i, b) in bits.iter().enumerate() { if *b { v[i / 8] |= 0x80 >> (i % 8); } } v };
        let mut why: Option<String> = None;
        match &r {
            Err(m) => why = Some(format!("PANIC {}", m)),
            Ok(Err(e)) => why = Some(format!("row-level decode failed: {}", e)),
            Ok(Ok(rows)) => {
                let expected: Vec<(Option<(String, u32)>, Vec<u8>)> = if s.interlaced {
                    let (x0, y0, dx, dy) = ([0usize, 4, 0, 2, 0, 1, 0], [0usize, 0, 4, 0, 2, 0, 1], [8usize, 8, 4, 4, 2, 2, 1], [8usize, 8, 8, 4, 4, 2, 2]);
                    adam7_rows_ref(s.w, s.h).iter().map(|&(p, l, pw)| {
                        let k = p as usize - 1;
                        let y = y0[k] + l as usize * dy[k];
                        let bits: Vec<bool> = (0..pw as usize).flat_map(|i| get_px(x0[k] + i * dx[k], y)).collect();
                        (Some((format!("{:?}", png::Adam7Info::new(p, l, pw)), pw)), pack(&bits))
                    }).collect()
                } else {
                    (0..s.h as usize).map(|y| (None, im.want[y * rb..(y + 1) * rb].to_vec())).collect()
                };
                if rows.len() != expected.len() {
                    why = Some(format!("{} rows handed out, {} expected", rows.len(), expected.len()));
                } else {
                    for (i, ((ga, gd), (ea, ed))) in rows.iter().zip(expected.iter()).enumerate() {
                        let used_bits = match ea { Some((_, pw)) => *pw as usize * bpp, None => s.w as usize * bpp };
                        if *ga != ea.as_ref().map(|x| x.0.clone()) { why = Some(format!("row {}: interlace info {:?}, expected {:?}", i, ga, ea)); break; }
                        if gd.len() != ed.len() { why = Some(format!("row {} ({:?}): {} bytes handed out, the scanline has {}", i, ea, gd.len(), ed.len())); break; }
                        if mask_padding(gd, gd.len(), used_bits) != mask_padding(ed, ed.len(), used_bits) { why = Some(format!("row {} ({:?}): bytes {} differ from the scanline {}", i, ea, hex(gd), hex(ed))); break; }
                    }
                }
            }
        }
        if let Some(w) = why {
            o.violation(viol("row-handed-out-is-not-the-scanline", vec![("image", jstr(&im.name)), ("schedule", jstr(&format!("{:?}", sched))), ("why", jstr(&w)), ("file", jstr(&short(&im.file)))]));
        }
    }
    // a whole-frame call in mid-frame, into a buffer longer than the frame needs (a buffer reused across images): the rows already taken stay
    // the caller's, the call delivers exactly the remaining scanlines of the specification and succeeds
    if got_px.is_some() && bad.is_none() && !s.interlaced && s.h >= 2 && (s.w as u64 * s.h as u64) <= (1 << 20) {
        let first = 1 + (s.h as usize - 2).min(im.file.len() % 3);
        let extra = 1 + im.file.len() % 2;
        let r = guarded(|| -> Result<Vec<u8>, String> {
            let mut rd = open_decoder(PieceReader::new(im.file.clone(), sched), Opts::default(), 0, None).read_info().map_err(|e| res_err(&e))?;
            let mut buf = vec![0xA5u8; rb * (s.h as usize + extra)];
            for y in 0..first {
                let row = rd.next_row().map_err(|e| res_err(&e))?.ok_or("no row")?;
                buf[y * rb..(y + 1) * rb].copy_from_slice(row.data());
            }
            rd.next_frame(&mut buf).map_err(|e| format!("next_frame after {} rows into a buffer of {} lines: {}", first, s.h as usize + extra, res_err(&e)))?;
            Ok(buf)
        });
        o.direct_checks += 1;
        let why = match r {
            Err(m) => Some(format!("PANIC {}", m)),
            Ok(Err(e)) => Some(e),
            Ok(Ok(buf)) => if buf[..rb * s.h as usize] != im.want[..] { Some("pixels differ from the specification".to_string()) }
                           else if buf[rb * s.h as usize..].iter().any(|b| *b != 0xA5) { Some("bytes behind the frame were written".to_string()) } else { None },
        };
        if let Some(w) = why {
            o.violation(viol("mid-frame-whole-frame-call-differs-from-specification", vec![("image", jstr(&im.name)), ("schedule", jstr(&format!("{:?}", sched))), ("why", jstr(&w)), ("file", jstr(&short(&im.file)))]));
        }
    }
    if to_model {
        let res = match &got_px {
            Some(p) => hex(p),
            None => "ERR".to_string(),
        };
        o.case(&format!("decode {} {} {} {} {} {}", s.color, s.depth, s.w, s.h, s.interlaced as u8, hex(&im.z)), &res,
            &format!("{}-{}-{}-{}-{}", s.color, s.depth, s.interlaced, s.w % 8, s.h % 8), s.w > 1 || s.h > 1);
    }
}

/// the unfiltering buffer's cursors (hook) after every row call vs Model/UnfiltBuf.v
fn ubuf_cases(o: &mut Out, rng: &mut Rng, thorough: bool) {
    use crate::gen::{valid_file, GenOpts};
    use crate::readerrun::*;
    use crate::streamrun::Opts;
    let mut files: Vec<(String, Vec<u8>, ImageSpec)> = vec![];
    for k in 0..(if thorough { 60 } else { 14 }) {
        let b = valid_file(rng, &GenOpts { maxw: if k % 3 == 0 { 900 } else { 60 }, maxh: if k % 3 == 0 { 300 } else { 40 }, anc: false, animated: Some(false) });
        files.push((b.name.clone(), b.bytes.clone(), b.spec.clone()));
    }
    let im = far_match_image(rng, 200, 32768, 0);
    files.push((im.name.clone(), im.file.clone(), im.spec.clone()));
    for (name, file, spec) in files {
        let piece = *rng.pick(&[0usize, 1, 7, 100, 4096, 40_000]);
        o.mark(&format!("ubuf {} piece={}", name, piece));
        let mut rd = match open_reader(&file, &[piece], Opts::default(), 0, None) { Ok(Ok(r)) => r, _ => continue };
        let bits = crate::refimpl::samples(spec.color) * spec.depth as usize;
        let rows: Vec<(u32, u32)> = if spec.interlaced { crate::refimpl::adam7_rows_ref(spec.w, spec.h).iter().map(|(_, l, lw)| (*l, *lw)).collect() } else { (0..spec.h).map(|l| (l, spec.w)).collect() };
        let mut calls: Vec<String> = vec![];
        let mut states: Vec<String> = vec![];
        for (line, lw) in rows.iter().take(6000) {
            let rl = (*lw as usize * bits + 7) / 8;
            let before = rd.verif_unfiltering_cursors();
            match rd.next_interlaced_row() { Ok(Some(_)) => {}, _ => break }
            let after = rd.verif_unfiltering_cursors();
            // what the call did, as far as the cursors show it: reset at the first row of an image / pass; an append (with compaction) iff the row was not complete
            let reset = *line == 0;
            let (blen, bprev, bcur) = (before.0, if reset { before.2 } else { before.1 }, before.2);
            let needed = blen - bcur < rl + 1;
            let k = if needed { after.0 as i64 - (blen - bprev) as i64 } else { 0 };
            if k < 0 { states.push(format!("NEGATIVE-APPEND {:?} {:?}", before, after)); break; }
            calls.push(format!("{}:{}:{}", reset as u8, rl, k));
            states.push(format!("{}:{}:{}", after.0, after.1, after.2));
        }
        if calls.is_empty() { continue; }
        o.case(&format!("ubuf {}", calls.join(",")), &states.join(";"), &format!("ubuf-{}-{}-{}", spec.interlaced, piece, name.len() % 5), calls.len() > 2);
        o.count("ubuf.files");
    }
}

pub fn run(a: &Args) {
    let mut o = Out::new(&a.out);
    let mut rng = Rng::new(a.seed);
    let thorough = a.tier == "thorough";
    // (1) every header kind x width/height residues x filters x splits x compressors
    let per_kind = if thorough { 160 } else { 22 };
    for &(c, d) in COLOR_DEPTHS.iter() {
        for il in [false, true] {
            for k in 0..per_kind {
                let (w, h) = if k < 9 { (k as u32 + 1, rng.range(1, 9) as u32) } else { (rng.range(1, if thorough { 70 } else { 40 }) as u32, rng.range(1, if thorough { 40 } else { 17 }) as u32) };
                let im = random_image(&mut rng, w, h, c, d, il);
                let sc: Vec<usize> = match k % 4 { 0 => vec![0], 1 => vec![1], 2 => vec![rng.range(1, 50) as usize], _ => vec![rng.range(1, 9) as usize, rng.range(1, 300) as usize] };
                o.count(&format!("kind.c{}d{}{}", c, d, if il { "i" } else { "n" }));
                o.distinct(&format!("{}-{}-{}-{}-{}", c, d, il, w % 8, h % 8));
                check_image(&mut o, &im, &sc, w * h <= 150 && im.z.len() < 700);
            }
        }
    }
    // exhaustive small sizes for a few kinds
    let m = if thorough { 24 } else { 9 };
    for w in 1..=m {
        for h in 1..=m {
            let (c, d) = COLOR_DEPTHS[((w * 7 + h) % 15) as usize];
            let im = random_image(&mut rng, w, h, c, d, (w + h) % 2 == 0);
            check_image(&mut o, &im, &[0], w * h <= 36);
            o.count("small-sizes");
        }
    }
    // (2) large images: more than 32 KiB and 128 KiB of inflated data, wide rows, every producer
    let large: Vec<(u32, u32, u8, u8, bool)> = if thorough {
        vec![(5000, 9, 6, 8, false), (700, 300, 2, 8, false), (1200, 130, 0, 16, true), (300, 600, 4, 8, false), (2049, 70, 3, 8, true), (333, 777, 0, 1, true), (4097, 33, 6, 16, false)]
    } else {
        vec![(700, 100, 2, 8, false), (1200, 60, 0, 16, true), (4097, 9, 6, 8, false)]
    };
    for (w, h, c, d, il) in large {
        for rep in 0..2 {
            let im = random_image(&mut rng, w, h, c, d, il);
            o.count("large");
            o.distinct(&format!("L{}-{}-{}", w, h, c));
            check_image(&mut o, &im, if rep == 0 { &[0] } else { &[4096] }, false);
        }
    }
    // (3) maximal-distance back-references right after the inflater's buffer compaction (data > 128 KiB)
    for (h, split) in [(200u32, 0usize), (200, 8000), (200, 777), (160, 1), (257, 32768)] {
        let im = far_match_image(&mut rng, h, 32768, split);
        o.count("far-back-reference");
        o.distinct(&format!("far-{}-{}", h, split));
        check_image(&mut o, &im, &[0], false);
        if split <= 1 || thorough {
            check_image(&mut o, &im, &[1], false);
        }
        check_image(&mut o, &im, &[rng.range(2, 5000) as usize], false);
    }
    // (4) deflate blocks and IDAT chunks ending exactly on scanline boundaries, more than 8 KiB / 32 KiB of rows, Up/Avg/Paeth rows
    for (w, h, c, d, rpb) in [(1023u32, 64u32, 0u8, 8u8, 16usize), (1023, 64, 0, 8, 1), (255, 200, 2, 8, 8), (511, 70, 6, 16, 4), (4095, 40, 0, 8, 2), (100, 400, 4, 8, 50)] {
        for ff in [Some(2u8), Some(3), Some(4), None] {
            let im = aligned_image(&mut rng, w, h, c, d, rpb, ff);
            o.count("aligned-blocks");
            o.distinct(&format!("al-{}-{}-{}-{:?}", w, h, rpb, ff));
            check_image(&mut o, &im, &[0], false);
            check_image(&mut o, &im, &[rng.range(1, 3000) as usize], false);
        }
    }
    // (5) highly compressible images a little above 32 / 64 / 128 KiB of scanline data: the inflater releases the last scanlines only with the
    //     flush at the chunk that follows the last IDAT (the rows are then buffered while the data sequence is already over)
    for (w, producer) in [(63u32, 0u8), (63, 1), (31, 0), (127, 1), (15, 2), (255, 0)] {
        for h in crate::gen::heights_just_above_buffer_sizes(w as usize + 1, if thorough { 9 } else { 5 }) {
            let b = crate::gen::held_back_tail_file(w, h, 0, producer, &[], &[]);
            let im = Img { name: b.name.clone(), file: b.bytes.clone(), spec: b.spec.clone(), z: vec![], want: b.frames[0].pixels.clone() };
            o.count("held-back-tails");
            check_image(&mut o, &im, &[0], false);
            if h % 3 == 0 { check_image(&mut o, &im, &[rng.range(1, 40) as usize], false); }
        }
    }
    ubuf_cases(&mut o, &mut rng, a.tier == "thorough");
    o.mark("done");
    o.finish();
}

pub fn replay(_case: &str) -> String {
    "unknown-case".into()
}
