(* driver.ml: runs the extracted Coq model on the cases written by the Rust harness.
   One case per input line, one canonical result per output line.  Hand-written, trusted. *)
open Model

(* ---------- conversions between OCaml ints and the extracted inductive numbers ---------- *)
let rec pos_of_int (n : int) : positive =
  if n = 1 then XH else if n land 1 = 0 then XO (pos_of_int (n lsr 1)) else XI (pos_of_int (n lsr 1))
let z_of_int (n : int) : z = if n = 0 then Z0 else if n > 0 then Zpos (pos_of_int n) else Zneg (pos_of_int (-n))
let rec int_of_pos (p : positive) : int =
  match p with XH -> 1 | XO q -> 2 * int_of_pos q | XI q -> 2 * int_of_pos q + 1
let int_of_z (x : z) : int = match x with Z0 -> 0 | Zpos p -> int_of_pos p | Zneg p -> - (int_of_pos p)
let rec nat_of_int (n : int) : nat = if n <= 0 then O else S (nat_of_int (n - 1))
let rec int_of_nat (n : nat) : int = match n with O -> 0 | S m -> 1 + int_of_nat m

let unhex (s : string) : z list =
  if s = "-" then [] else
    List.init (String.length s / 2) (fun i -> z_of_int (int_of_string ("0x" ^ String.sub s (2 * i) 2)))
let hex (l : z list) : string =
  if l = [] then "-" else String.concat "" (List.map (fun b -> Printf.sprintf "%02x" (int_of_z b)) l)
let zs (s : string) : z = z_of_int (int_of_string s)

let fmethod_of_int n =
  match n with 0 -> MFixed FNone | 1 -> MFixed FSub | 2 -> MFixed FUp | 3 -> MFixed FAvg | 4 -> MFixed FPaeth | _ -> MAdaptive

let run_case (t : string list) : string =
  match t with
  | ["paeth"; k; a; b; c] ->
    let f = (match k with "0" -> filter_paeth | "1" -> filter_paeth_stbi | "2" -> filter_paeth_stbi_i16 | _ -> filter_paeth_fpnge) in
    string_of_int (int_of_z (f (zs a) (zs b) (zs c)))
  | ["unfilter"; ft; bpp; prev; cur] ->
    (match row_filter_from_u8 (zs ft) with
     | None -> "badfilter"
     | Some f -> hex (unfilter_model filter_paeth_decode_x86_64 f (nat_of_int (int_of_string bpp)) (unhex prev) (unhex cur)))
  | ["filter"; m; bpp; prev; cur] ->
    (match filter_model (fmethod_of_int (int_of_string m)) (nat_of_int (int_of_string bpp)) (unhex prev) (unhex cur) with
     | None -> "unmodelled"
     | Some (rf, out) -> Printf.sprintf "%d %s" (int_of_z (ftype_to_Z rf)) (hex out))
  | ["a7rows"; w; h] ->
    let rows = rows_model (zs w) (zs h) in
    if rows = [] then "-" else
      String.concat "," (List.map (fun ((p, l), lw) -> Printf.sprintf "%d:%d:%d" (int_of_z p) (int_of_z l) (int_of_z lw)) rows)
  | ["a7dims"; w; h; p] ->
    (match pass_dims (zs w) (zs h) (zs p) with
     | Some (lw, ln) -> Printf.sprintf "%d %d" (int_of_z lw) (int_of_z ln)
     | None -> "PANIC unreachable")
  | ["expand"; dest; stride; p; line; width; bits; row] ->
    (match expand_pass_exec (unhex dest) (zs stride) (zs p) (zs line) (zs width) (zs bits) (unhex row) with
     | Some d -> hex d
     | None -> "PANIC invalid pass")
  | _ -> "unknown-case"

let () =
  try
    while true do
      let line = input_line stdin in
      let t = String.split_on_char ' ' (String.trim line) in
      let r = (try run_case t with e -> "MODEL-EXCEPTION " ^ Printexc.to_string e) in
      print_string r; print_char '\n'
    done
  with End_of_file -> ()
