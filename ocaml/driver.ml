(* driver.ml: runs the extracted Coq model on the cases written by the Rust harness.
   One case per input line, one canonical result per output line.  Hand-written, trusted. *)
open Model

(* ---------- conversions between OCaml ints and the extracted inductive numbers ---------- *)
let rec pos_of_int (n : int) : positive =
  if n = 1 then XH else if n land 1 = 0 then XO (pos_of_int (n lsr 1)) else XI (pos_of_int (n lsr 1))
let z_of_int (n : int) : z = if n = 0 then Z0 else if n > 0 then Zpos (pos_of_int n) else Zneg (pos_of_int (-n))
let rec int_of_pos (p : positive) : int =
  match p with XH -> 1 | XO q -> 2 * int_of_pos q | XI q -> 2 * int_of_pos q + 1
let int_of_z (x : z) : int = match x with Z0 -> 0 | Zpos p -> int_of_pos p | Zneg p -> - (int_of_pos p)
let rec nat_of_int (n : int) : nat = if n <= 0 then O else S (nat_of_int (n - 1))
let rec int_of_nat (n : nat) : int = match n with O -> 0 | S m -> 1 + int_of_nat m

let unhex (s : string) : z list =
  if s = "-" then [] else
    List.init (String.length s / 2) (fun i -> z_of_int (int_of_string ("0x" ^ String.sub s (2 * i) 2)))
let hex (l : z list) : string =
  if l = [] then "-" else String.concat "" (List.map (fun b -> Printf.sprintf "%02x" (int_of_z b)) l)
let zs (s : string) : z = z_of_int (int_of_string s)

let fmethod_of_int n =
  match n with 0 -> MFixed FNone | 1 -> MFixed FSub | 2 -> MFixed FUp | 3 -> MFixed FAvg | 4 -> MFixed FPaeth | _ -> MAdaptive


(* ---------- L0 stream model: printing the observation exactly as harness/src/streamrun.rs does ---------- *)
let zi = int_of_z
let hash_bytes (l : z list) : int = List.fold_left (fun h b -> (h * 31 + zi b) mod 1_000_000_007) 7 l
let fctl_str (f : fctl) : string =
  Printf.sprintf "%d:%d:%d:%d:%d:%d:%d:%d:%d" (zi f.fc_seq) (zi f.fc_w) (zi f.fc_h) (zi f.fc_x) (zi f.fc_y) (zi f.fc_dn) (zi f.fc_dd) (zi f.fc_dispose) (zi f.fc_blend)
let ints (l : z list) : string = String.concat ":" (List.map (fun v -> string_of_int (zi v)) l)
let fmt_name (f : fmt_err) : string = match f with
  | FCrcMismatch -> "CrcMismatch" | FInvalidSignature -> "InvalidSignature" | FMissingFctl -> "MissingFctl"
  | FMissingImageData -> "MissingImageData" | FChunkBeforeIhdr -> "ChunkBeforeIhdr" | FAfterIdat -> "AfterIdat"
  | FBeforePlte -> "BeforePlte" | FAfterPlte -> "AfterPlte" | FOutsidePlteIdat -> "OutsidePlteIdat"
  | FDuplicateChunk -> "DuplicateChunk" | FApngOrder -> "ApngOrder" | FShortPalette -> "ShortPalette"
  | FInvalidSbitChunkSize -> "InvalidSbitChunkSize" | FInvalidSbit -> "InvalidSbit" | FPaletteRequired -> "PaletteRequired"
  | FInvalidColorBitDepth -> "InvalidColorBitDepth" | FColorWithBadTrns -> "ColorWithBadTrns" | FInvalidDimensions -> "InvalidDimensions"
  | FInvalidBitDepth -> "InvalidBitDepth" | FInvalidColorType -> "InvalidColorType" | FInvalidDisposeOp -> "InvalidDisposeOp"
  | FInvalidBlendOp -> "InvalidBlendOp" | FInvalidUnit -> "InvalidUnit" | FInvalidSrgbRenderingIntent -> "InvalidSrgbRenderingIntent"
  | FUnknownCompressionMethod -> "UnknownCompressionMethod" | FUnknownFilterMethod -> "UnknownFilterMethod"
  | FUnknownInterlaceMethod -> "UnknownInterlaceMethod" | FBadSubFrameBounds -> "BadSubFrameBounds"
  | FCorruptFlateStream -> "CorruptFlateStream" | FNoMoreImageData -> "NoMoreImageData" | FBadTextEncoding -> "BadTextEncoding"
  | FFdatShorterThanFourBytes -> "FdatShorterThanFourBytes" | FUnexpectedRestart -> "UnexpectedRestartOfDataChunkSequence"
  | FChunkTooShort -> "ChunkTooShort"
let derr_str (e : derr) : string = match e with
  | EIoEof -> "Io:UnexpectedEof" | EFormat f -> "Format:" ^ fmt_name f
  | EParamPolledAfterEnd -> "Param:PolledAfterEndOfImage" | EParamPolledAfterFatal -> "Param:PolledAfterFatalError"
  | EParamBufferSize -> "Param:ImageBufferSize" | ELimits -> "Limits"
let event_str (e : event) : string = match e with
  | ENothing -> "N"
  | EHeader (w, h, d, c, i) -> Printf.sprintf "H:%d:%d:%d:%d:%d" (zi w) (zi h) (zi d) (zi c) (if i then 1 else 0)
  | EChunkBegin (l, t) -> Printf.sprintf "CB:%d:%d" (zi l) (zi t)
  | EChunkComplete (c, t) -> Printf.sprintf "CC:%d:%d" (zi c) (zi t)
  | EPixelDimensions (x, y, u) -> Printf.sprintf "PD:%d:%d:%d" (zi x) (zi y) (zi u)
  | EAnimationControl (f, p) -> Printf.sprintf "AC:%d:%d" (zi f) (zi p)
  | EFrameControl f -> "FC:" ^ fctl_str f
  | EImageData -> "D" | EImageDataFlushed -> "F"
  | EPartialChunk t -> Printf.sprintf "PC:%d" (zi t)
  | EImageEnd -> "IE"
let oev_str (o : oev) : string = match o with
  | OEv e -> event_str e
  | OData -> "D"
  | OFlushed d -> Printf.sprintf "F:%d:%d" (List.length d) (hash_bytes d)
let opt_hex (o : z list option) : string = match o with Some b -> hex b | None -> "none"
let info_dump (i : info_t) : string =
  let g k = anc_get k i.i_anc in
  let b = Buffer.create 256 in
  Buffer.add_string b (Printf.sprintf "%d,%d,%d,%d,%d" (zi i.i_width) (zi i.i_height) (zi i.i_depth) (zi i.i_color) (if i.i_interlaced then 1 else 0));
  Buffer.add_string b ("|pal=" ^ opt_hex (g KPalette));
  Buffer.add_string b ("|trns=" ^ opt_hex (g KTrns));
  Buffer.add_string b ("|sbit=" ^ opt_hex (g KSbit));
  let num name k = Buffer.add_string b ("|" ^ name ^ "=" ^ (match g k with Some l -> ints l | None -> "none")) in
  num "phys" KPhys; num "gama" KGama; num "chrm" KChrm; num "srgb" KSrgb;
  Buffer.add_string b ("|iccp=" ^ opt_hex (g KIccp));
  num "cicp" KCicp; num "mdcv" KMdcv; num "clli" KClli;
  Buffer.add_string b ("|exif=" ^ opt_hex (g KExif));
  Buffer.add_string b ("|bkgd=" ^ opt_hex (g KBkgd));
  Buffer.add_string b ("|fctl=" ^ (match i.i_fctl with Some f -> fctl_str f | None -> "none"));
  Buffer.add_string b ("|actl=" ^ (match i.i_actl with Some (f, p) -> Printf.sprintf "%d:%d" (zi f) (zi p) | None -> "none"));
  Buffer.add_string b "|text=";
  let h0 l = if l = [] then "-" else hex l in
  List.iter (fun t -> if zi t.t_kind = 0 then
    Buffer.add_string b (Printf.sprintf "[0:%s:0:-:-:ok:%s]" (h0 t.t_keyword) (h0 t.t_payload))) i.i_text;
  List.iter (fun t -> if zi t.t_kind = 1 then
    Buffer.add_string b (Printf.sprintf "[1:%s:1:-:-:%s]" (h0 t.t_keyword)
      (match inflate_checked t.t_payload with Some x -> "ok:" ^ h0 x | None -> "err"))) i.i_text;
  List.iter (fun t -> if zi t.t_kind = 2 then
    Buffer.add_string b (Printf.sprintf "[2:%s:%d:%s:%s:%s]" (h0 t.t_keyword) (if t.t_compressed then 1 else 0) (h0 t.t_lang) (h0 t.t_trans)
      (if t.t_compressed then (match inflate_checked t.t_payload with Some x when utf8_valid x -> "ok:" ^ h0 x | _ -> "err") else "ok:" ^ h0 t.t_payload))) i.i_text;
  Buffer.contents b
let rend_str (r : rend) : string = match r with
  | REof -> "EOF" | RImageEnd n -> Printf.sprintf "IEND:%d" (int_of_nat n)
  | RErr e -> "ERR:" ^ derr_str e | RPanic n -> Printf.sprintf "PANIC site %d" (int_of_nat n) | RFuel -> "MODEL-OUT-OF-FUEL"
let l0_text (((evs, e), info) : (oev list * rend) * info_t option) : string =
  Printf.sprintf "%s END=%s INFO=%s" (let evs = List.filter (fun e -> e <> OData) evs in if evs = [] then "-" else String.concat ";" (List.map oev_str evs)) (rend_str e)
    (match info with Some i -> info_dump i | None -> "none")
let sizes_of (s : string) : z list = if s = "-" then [] else List.map zs (String.split_on_char ',' s)

let run_case (t : string list) : string =
  match t with
  | ["paeth"; k; a; b; c] ->
    let f = (match k with "0" -> filter_paeth | "1" -> filter_paeth_stbi | "2" -> filter_paeth_stbi_i16 | _ -> filter_paeth_fpnge) in
    string_of_int (int_of_z (f (zs a) (zs b) (zs c)))
  | ["unfilter"; ft; bpp; prev; cur] ->
    (match row_filter_from_u8 (zs ft) with
     | None -> "badfilter"
     | Some f -> hex (unfilter_model filter_paeth_decode_x86_64 f (nat_of_int (int_of_string bpp)) (unhex prev) (unhex cur)))
  | ["filter"; m; bpp; prev; cur] ->
    (match filter_model (fmethod_of_int (int_of_string m)) (nat_of_int (int_of_string bpp)) (unhex prev) (unhex cur) with
     | None -> "unmodelled"
     | Some (rf, out) -> Printf.sprintf "%d %s" (int_of_z (ftype_to_Z rf)) (hex out))
  | ["a7rows"; w; h] ->
    let rows = rows_model (zs w) (zs h) in
    if rows = [] then "-" else
      String.concat "," (List.map (fun ((p, l), lw) -> Printf.sprintf "%d:%d:%d" (int_of_z p) (int_of_z l) (int_of_z lw)) rows)
  | ["a7dims"; w; h; p] ->
    (match pass_dims (zs w) (zs h) (zs p) with
     | Some (lw, ln) -> Printf.sprintf "%d %d" (int_of_z lw) (int_of_z ln)
     | None -> "PANIC unreachable")
  | ["latin1dec"; b] -> String.concat "," (List.map (fun z -> string_of_int (int_of_z z)) (decode_latin1 (unhex (if b = "-" then "" else b))))
  | ["latin1enc"; cps] ->
    let l = if cps = "-" then [] else List.map (fun s -> zs s) (String.split_on_char ',' cps) in
    (match encode_latin1 l with Some raw -> "OK " ^ hex raw | None -> "REFUSED")
  | ["textinf"; z; limit] ->
    (match text_decompress_run (unhex z) (zs limit) with
     | Ok s -> "OK " ^ String.concat "," (List.map (fun z -> string_of_int (int_of_z z)) s)
     | Err _ -> "ERR"
     | Panic _ -> "PANIC")
  | ["ubuf"; calls] ->
    let l = if calls = "-" then [] else List.map (fun c -> match String.split_on_char ':' c with
        | [r; rl; k] -> ((r = "1", zs rl), zs k) | _ -> ((false, Z0), Z0)) (String.split_on_char ',' calls) in
    String.concat ";" (List.map (fun ((a, b), c) -> Printf.sprintf "%d:%d:%d" (int_of_z a) (int_of_z b) (int_of_z c)) (cur_run ((Z0, Z0), Z0) l))
  | ["zbuf"; mx; ks] ->
    let z0 = { zb_new with zb_max = (if mx = "-" then None else Some (zs mx)) } in
    let l = if ks = "-" then [] else List.map zs (String.split_on_char ',' ks) in
    String.concat ";" (List.map (fun ((a, b), c) -> Printf.sprintf "%d:%d:%d" (int_of_z a) (int_of_z b) (int_of_z c)) (zb_cursor_run z0 l))
  | "menc" :: rest ->
    let ints s = if s = "-" then [] else List.map zs (String.split_on_char ',' s) in
    let show l = if l = [] then "-" else String.concat "," (List.map (fun z -> string_of_int (int_of_z z)) l) in
    let res r = (match r with Ok p -> "OK " ^ show p | Err MUnrepresentable -> "ERR" | Err MKeywordSize -> "ERR" | Panic _ -> "PANIC") in
    let optl s = if s = "n" then None else Some (ints s) in
    (match rest with
     | ["text"; kw; txt] -> res (enc_text (ints kw) (ints txt))
     | ["ztxt"; kw; pre; txt] -> res (enc_ztxt k_mark (ints kw) (if pre = "1" then Compressed (k_mark (ints txt)) else Uncompressed (ints txt)))
     | ["itxt"; kw; c; lang; trans; txt] -> res (enc_itxt k_mark (ints kw) (c = "1") (ints lang) (ints trans) (ints txt))
     | ["fctl"; n; w; h; x; y; dn; dd; dop; bop] ->
       show (enc_fctl { fc_seq = zs n; fc_w = zs w; fc_h = zs h; fc_x = zs x; fc_y = zs y; fc_dn = zs dn; fc_dd = zs dd; fc_dispose = zs dop; fc_blend = zs bop })
     | ["header"; phys; srgb; gamma; chrm; icc; exif; actl; plte; trns] ->
       let m = { m_phys = (match optl phys with Some [x; y; u] -> Some ((x, y), u) | _ -> None);
                 m_srgb = (match optl srgb with Some [r] -> Some r | _ -> None);
                 m_gamma = (match optl gamma with Some [g] -> Some g | _ -> None);
                 m_chrm = optl chrm; m_icc = optl icc; m_exif = optl exif;
                 m_actl = (match optl actl with Some [f; p] -> Some (f, p) | _ -> None);
                 m_plte = optl plte; m_trns = optl trns } in
       String.concat ";" (List.map (fun (ty, p) -> Printf.sprintf "%d:%s" (int_of_z ty) (show p)) (header_chunks k_mark m))
     | _ -> "BADCASE")
  | ["expand"; dest; stride; p; line; width; bits; row] ->
    (match expand_pass_exec (unhex dest) (zs stride) (zs p) (zs line) (zs width) (zs bits) (unhex row) with
     | Some d -> hex d
     | None -> "PANIC invalid pass")
  | ["encrows"; m; bpp; rowlen; data] ->
    let rl = int_of_string rowlen in
    let d = unhex data in
    let rec split l = if l = [] then [] else (let rec take n l = if n = 0 then ([], l) else (match l with [] -> ([], []) | x :: t -> let (a, b) = take (n - 1) t in (x :: a, b)) in let (a, b) = take rl l in a :: split b) in
    (match encode_image (fmethod_of_int (int_of_string m)) (nat_of_int (int_of_string bpp)) (nat_of_int rl) (split d) with
     | Some s -> hex s
     | None -> "unmodelled")
  | ["swtrace"; m; bpp; line; height; pieces] ->
    (* pieces: comma-separated hex strings ("-" = an empty write) *)
    let ps = List.map (fun x -> if x = "-" then [] else unhex x) (String.split_on_char ',' pieces) in
    let (ns, out) = sw_trace (fmethod_of_int (int_of_string m)) (nat_of_int (int_of_string bpp))
                      (sw_init (nat_of_int (int_of_string line)) (nat_of_int (int_of_string height))) ps in
    String.concat "," (List.map (fun n -> string_of_int (int_of_z n)) ns) ^ "|" ^ hex out
  | ["cwtrace"; cap; ops] ->
    (* ops: comma-separated; "F" = flush, "-" = empty write, else hex bytes of one write call *)
    let os = List.map (fun x -> if x = "F" then CwFlush else if x = "-" then CwWrite [] else CwWrite (unhex x)) (String.split_on_char ',' ops) in
    let (rs, cs) = cw_trace { cw_cap = nat_of_int (int_of_string cap); cw_buf = [] } os in
    String.concat "," (List.map (fun n -> string_of_int (int_of_z n)) rs) ^ "|" ^ String.concat "," (List.map hex cs)
  | ["wfail"; validate; anim; sep; budget; ns; fin] ->
    (* writer history over a sink that refuses every chunk write after the first [budget] ("-" = healthy) *)
    let c = { animated = (if anim = "-" then None else Some (nat_of_int (int_of_string anim))); sep_def = (sep = "1"); has_plte = false; anc_before = O; anc_after = O } in
    let nl = if ns = "-" then [] else List.map (fun x -> nat_of_int (int_of_string x)) (String.split_on_char ',' ns) in
    let b = if budget = "-" then None else Some (nat_of_int (int_of_string budget)) in
    let (log, rs) = f_history (validate = "1") c b nl (fin = "1") in
    String.concat " " (List.map (fun k -> match k with
      | KACTL _ -> "acTL" | KFCTL q -> Printf.sprintf "fcTL:%d" (int_of_nat q) | KIDAT -> "IDAT"
      | KFDAT q -> Printf.sprintf "fdAT:%d" (int_of_nat q) | KIEND -> "IEND" | KIHDR -> "IHDR" | KPLTE -> "PLTE" | KANC -> "anc") log)
    ^ " | " ^ String.concat "," (List.map (fun r -> match r with FOk -> "ok" | FErrSink -> "sink" | FErrEndReached -> "end" | FErrMissingFrames -> "missing") rs)
  | ["rowcharge"; first; rest] ->
    (* bytes charged against the limit for the shared row buffer after each further frame (row sizes, comma separated) *)
    let l = if rest = "-" then [] else List.map zs (String.split_on_char ',' rest) in
    String.concat "," (List.map (fun n -> string_of_int (int_of_z n)) (rc_charged (zs first) l))
  | ["frect"; w; h; ops] ->
    (* frame-rectangle setters and images on an animated encoder: D<w>x<h> | P<x>x<y> | RD | RP | I, comma separated *)
    let two s = match String.split_on_char 'x' s with [a; b] -> (zs a, zs b) | _ -> failwith "frect" in
    let os = List.map (fun t ->
      if t = "I" then FImage else if t = "RD" then FResetDim else if t = "RP" then FResetPos
      else if t.[0] = 'D' then (let (a, b) = two (String.sub t 1 (String.length t - 1)) in FDim (a, b))
      else (let (a, b) = two (String.sub t 1 (String.length t - 1)) in FPos (a, b))) (String.split_on_char ',' ops) in
    String.concat " " (List.map (fun l -> String.concat ":" (List.map (fun n -> string_of_int (int_of_z n)) l)) (frun_codes (zs w) (zs h) os))
  | ["writer"; anim; sep; plte; ns] ->
    let c = { animated = (if anim = "-" then None else Some (nat_of_int (int_of_string anim))); sep_def = (sep = "1"); has_plte = (plte = "1"); anc_before = O; anc_after = O } in
    let l = emitted c (List.map (fun x -> nat_of_int (int_of_string x)) (String.split_on_char ',' ns)) in
    String.concat " " (List.filter_map (fun k -> match k with
      | KACTL _ -> Some "acTL" | KFCTL q -> Some (Printf.sprintf "fcTL:%d" (int_of_nat q)) | KIDAT -> Some "IDAT"
      | KFDAT q -> Some (Printf.sprintf "fdAT:%d" (int_of_nat q)) | KIEND -> Some "IEND" | _ -> None) l)
  | ["reader"; rows; declared; fctl0; ops] ->
    let rl = List.map (fun x -> nat_of_int (int_of_string x)) (String.split_on_char ',' rows) in
    let im = { rows = rl; declared = nat_of_int (int_of_string declared); has_fctl = (fun k -> if k = O then fctl0 = "1" else true) } in
    let vis = total im in
    let opl = List.init (String.length ops) (fun i -> ((match ops.[i] with 'F' -> OFrame | 'N' -> OFrameInfo | 'X' -> OFinish | _ -> ORow), vis)) in
    let (_, rs) = run im (reader_init im) opl in
    String.concat " " (List.map (fun (r, _) -> match r with
      | RFrame k -> Printf.sprintf "F%d" (int_of_nat k) | RRowNone -> "none" | RRow (k, j) -> Printf.sprintf "r%d.%d" (int_of_nat k) (int_of_nat j)
      | RInfo k -> Printf.sprintf "N%d" (int_of_nat k) | RFinished -> "X" | REndOfImage -> "E" | REofR -> "eof" | RMissingData -> "missing"
      | RPanicR n -> Printf.sprintf "PANIC%d" (int_of_nat n)) rs)
  | ["transform"; c; d; t; pal; trns; w; row] ->
    let o s = if s = "-" then None else if s = "e" then Some [] else Some (unhex s) in
    let i = { t_color = zs c; t_depth = zs d; t_palette = o pal; t_trns = o trns } in
    let n = int_of_z (output_line_size i (zs t) (zs w)) in
    (match transform_row i (zs t) (unhex row) (List.init n (fun _ -> Z0)) with
     | TROk out -> hex out
     | TRErr _ -> "ERR"
     | TRPanic k -> Printf.sprintf "PANIC %d" (int_of_nat k))
  | ["decode"; c; d; w; h; il; z] ->
    (match decode_frame (zs c) (zs d) (zs w) (zs h) (il = "1") (unhex z) with
     | Some px -> hex px
     | None -> "ERR")
  | ["l0budget"; ob; lim; sizes; bytes] -> string_of_int (int_of_z (l0_budget (zs ob) (zs lim) (sizes_of sizes) (unhex bytes)))
  | ["l0"; ob; lim; sizes; bytes] -> l0_text (l0_run (zs ob) (zs lim) (sizes_of sizes) (unhex bytes))
  | ["l0reset"; ob; lim; first; second] -> l0_text (l0_run_after_reset (zs ob) (zs lim) (unhex first) (unhex second))
  | _ -> "unknown-case"

let () =
  try
    while true do
      let line = input_line stdin in
      let t = String.split_on_char ' ' (String.trim line) in
      let r = (try run_case t with e -> "MODEL-EXCEPTION " ^ Printexc.to_string e) in
      print_string r; print_char '\n'
    done
  with End_of_file -> ()
