#!/bin/bash
# usage: try_seed_raw.sh <patch.diff> <prop>... : apply a seeded change, rebuild the harness, run the harness side of the given properties only
P=$1; shift
cd /repo && git apply "$P" || { echo "PATCH DOES NOT APPLY: $P"; exit 2; }
(cd /verif/harness && CARGO_NET_OFFLINE=true CARGO_TARGET_DIR=/verif/build/target cargo build --release --offline 2>&1 | grep -E "^error" -A8 | head -20)
for c in "$@"; do
  mkdir -p /tmp/raw_$c; timeout 900 /verif/build/target/release/pngv $c --tier quick --seed 1 --out /tmp/raw_$c >/dev/null 2>&1; rc=$?
  python3 - "$c" "$rc" <<'PY'
import json,sys,collections
c,rc=sys.argv[1],sys.argv[2]
try:
    s=json.load(open('/tmp/raw_%s/stats.json'%c)); print(' ',c,'exit',rc,'direct',s['direct_checks'],'violations',dict(collections.Counter(v.get('class') for v in s['violations'])))
except Exception as e:
    print(' ',c,'exit',rc,'no stats (killed?)', open('/tmp/raw_%s/current.txt'%c).read()[:150] if True else '')
PY
done
cd /repo && git checkout -- . ; (cd /verif/harness && CARGO_NET_OFFLINE=true CARGO_TARGET_DIR=/verif/build/target cargo build --release --offline 2>&1 | grep -E "^error" | head -3)
