#!/bin/bash
# usage: try_seed2.sh <patch> <prop>... : like try_seed.sh but prints one line per property (exit code + class summary)
P=$1; shift
git -C /repo apply "$P" || { echo "PATCH DOES NOT APPLY: $P"; exit 2; }
for prop in "$@"; do
  out=$(cd /verif && ./check $prop --tier quick 2>&1); rc=$?
  echo "  $prop exit=$rc $(echo "$out" | grep -c '^VIOLATION') violation-lines; $(echo "$out" | grep '^\[check\]' | sed 's/.*cases=/cases=/')"
done
git -C /repo checkout -- .
# restore the evidence files of the unchanged tree (a run against a seeded change must never be committed as evidence)
git -C /verif checkout -- evidence 2>/dev/null
