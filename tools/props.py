"""Per-property configuration of ./check (what to build, what ties the model to the code, evidence text)."""
PROPS = {
 'C14': {
  'level_text': 'Coq theorems (closed under the global context) that the model of unfilter equals the PNG specification\'s reconstruction for every '
                'filter type, pixel size, row length and content incl. first rows; that encoder filtering (5 fixed + adaptive) followed by it is the '
                'identity; and that each Paeth predictor, regenerated from the Rust source on every run, equals the specification on all byte triples '
                'without integer overflow. The loops are hand-modelled and tied to the crate by differential execution on every run.',
  'level_note': 'Trusted: Coq kernel; translator rs2v.py for the predictors; hand model of filter.rs loops + correspondence harness; extraction (ExtrOcamlBasic) '
                'and the OCaml driver. SIMD (feature unstable) paths not modelled.',
  'gen_items': ['filter_paeth', 'filter_paeth_stbi', 'filter_paeth_stbi_i16', 'filter_paeth_fpnge', 'filter_paeth_decode',
                'filter_paeth_encode', 'unfilter_first_row_subst', 'RowFilter::from_u8', 'sum_buffer.weight'],
  'model_name': 'Model/Filter.v unfilter_model, filter_model; Gen/GenPaeth.v predictors',
  'rule': 'cases = (a) all 2^24 byte triples through each compiled Paeth predictor vs the specification; (b) (filter type x bpp in {1,2,3,4,6,8} '
          'x first/later row x row length) rows with adversarial byte distributions, run through the crate (verif-hooks) and through the '
          'extracted Coq model; (c) 6 encoder filter settings x bpp x lengths around the 32-byte chunk and its remainders. A case is '
          'non-trivial when the row is longer than one pixel (paeth triples always); distinct = distinct (kind, filter, bpp, length, first-row) '
          'signatures, hashed.',
  'trusted_base': ['hand model of the loops of src/filter.rs (unfilter, filter_internal, filter, sum_buffer) in coq/Model/Filter.v, tied by differential execution',
                   'the unstable-feature SIMD paths of filter.rs are not modelled (feature off in the baseline build)'],
  'assumptions': ['BytesPerPixel in {1,2,3,4,6,8} and row length a multiple of it (guaranteed by common.rs row-length computation; proved for all bpp>0)',
                  'u64 saturating sum in sum_buffer never saturates (rows < 2^57 bytes)'],
 },
 'C15': {
  'level_text': 'Coq theorems (closed under the global context): the interlaced row sequence of the model of Adam7Iterator (pass sizes from the init_pass '
                'arms regenerated from the source, modelled as exact rationals) equals the specification pass table for every u32 width and height; the '
                'positions from the regenerated expand tables partition every image (sound, complete, unique, pass = the 8x8 pattern); one call of the '
                'row-expansion model stores every pixel at its position and changes no other bit for every legal pixel size and stride; expanding all '
                'rows in any order yields the image independent of the destination. Iterator, expand loops and f64 arithmetic are tied by differential '
                'execution (hooks and public API) on every run.',
  'level_note': 'Trusted: Coq kernel; translator rs2v.py (init_pass arms, expand tables, sub-byte masks, store expression); hand model of the loops of adam7.rs; '
                'IEEE-754 exactness of u32->f64, subtraction of a small constant, division by a power of two and ceil (closed on the implementation side by the '
                'harness sweep: all w<=4096 and boundaries quick, all 2^32 thorough); extraction + OCaml driver; harness.',
  'gen_items': ['Adam7Iterator::init_pass', 'expand_adam7_bits', 'subbyte_pixels', 'expand_pass.store'],
  'model_name': 'Model/Adam7.v rows_model, pass_dims, expand_pass_exec; Gen/GenAdam7.v tables',
  'rule': 'cases = (a) Adam7Iterator rows for all (w,h) <= 24^2 (64^2 thorough) plus random wide/tall sizes vs the specification and (small sizes) vs the extracted model; '
          '(b) init_pass sizes for every pass over a dense range, every power-of-two neighbourhood up to 2^32-1 and random u32 pairs (thorough: all 2^32 values); '
          '(c) expand_interlaced_row of all rows in random order into dirty buffers for (w,h) <= 9^2 (20^2) x 9 pixel sizes x strides; (d) interlaced PNGs built by the '
          'harness and decoded through next_interlaced_row + expand_interlaced_row. Non-trivial: image larger than 1x1; distinct = distinct (kind, size residues mod 8, '
          'pixel size, stride slack) signatures, hashed.',
  'trusted_base': ['hand model of Adam7Iterator / expand_pass loops in coq/Model/Adam7.v, tied by differential execution',
                   'IEEE-754 exactness assumption for init_pass (see level_note), tested by sweep on the compiled code'],
  'assumptions': ['width, height in [1, 2^32-1]', 'bits per pixel in {1,2,4,8,16,24,32,48,64}', 'stride*8 >= width*bits for the whole-image theorem'],
 },
 'C07': {
  'level_text': 'Coq theorems (closed under the global context, for EVERY inflater behaviour, every well-formed decoder state and every byte buffer): one '
                'StreamingDecoder::update call of the L0 model never exhausts its 2*len+8 transition budget (the measure 2*bytes_left + rank(state) strictly '
                'decreases on every silent transition), consumes at most the buffer, returns the silent event only after consuming the whole non-empty buffer '
                '(so each call consumes a byte, returns an event or returns an error), poisons the decoder on every error, and preserves well-formedness; the '
                'poisoned state answers at once. LINEAR BOUND: every transition (events included) consumes a byte or lowers the rank of the control state, so it lowers 5*bytes_left + rank (rank <= 4): a buffer of L bytes is '
                'used up, or an error / the end of the image reached, within 5*L+4 transitions; the caller loop feed (offer the rest again after every event) never exceeds its budget of 5*L+8 update calls per buffer, for every '
                'input and every way of cutting it. The L0 model is tied to stream.rs by differential execution of traces on every run; the Reader-level loops are '
                'checked by step counters (fill_buf calls <= 8*|input| + 2*|output| + 64, no run of zero-byte consumes) and a watchdog.',
  'level_note': 'Trusted: Coq kernel; hand model of stream.rs (update/next_state/parse_u32/parse_chunk and all chunk parsers) in coq/Model/Stream.v tied by correspondence; '
                'the Reader/ReadDecoder loops and zlib.rs are NOT covered by the theorem (measured by counters + watchdog only); extraction + OCaml driver; harness.',
  'gen_items': ['CHUNK_BUFFER_SIZE', 'signature', 'chunk.consts', 'chunk.is_critical', 'parse_chunk.benign'],
  'model_name': 'Model/Stream.v update (L0 machine) with the reference inflater',
  'rule': 'cases = valid PNG/APNG files with random legal ancillary chunks, structural and byte mutations of them, chunk bodies crossing the 32 KiB buffer, '
          'repository corpus files, every truncation of small files, compressible bombs; each through the low-level decoder under 6-16 delivery schedules (update-call '
          'counter, zero-progress runs) and through the Reader by three paths (next_frame, next_row, finish) under 3 schedules (fill_buf counter, zero-byte consume runs); '
          'model-vs-implementation traces on small files. Non-trivial: more than the signature and IHDR; distinct = (kind, length) signatures, hashed.',
  'trusted_base': ['hand model of src/decoder/stream.rs in coq/Model/Stream.v, tied by differential execution of event traces',
                   'Reader-level termination is measured (counters, watchdog), not proved'],
  'assumptions': ['buffers are byte strings (0..255)', 'the inflater is arbitrary in the theorem; in the correspondence it is the Gallina reference inflate'],
  'timeout_quick': 900,
 },
 'C10': {
  'level_text': 'Coq theorems (closed under the global context): each listed rejection rule of the stream machine holds in EVERY state where it applies (so for every '
                'placement of the offending chunk), for every inflater: wrong signature, first chunk not IHDR, second IHDR, exact IHDR field validation against the table '
                'of 15 legal pairs (65536-pair sweep lifted), second PLTE, image-data chunks not consecutive (readiness flags cleared only at the end of a data run), fdAT '
                'without fcTL / shorter than 4 bytes, sequence-number gaps, exact frame-rectangle validation over unbounded integers; every rejection poisons the decoder '
                'and (C07) no later call can succeed. Rules enforced above the stream machine (no image data, filter byte > 4, short/corrupt deflate data) and the model '
                'itself are decided / tied by fault injection at every site and by all chunk-kind sequences up to length 5 (6) against a reference automaton.',
  'level_note': 'Trusted: Coq kernel; hand model of stream.rs tied by differential execution; translator for chunk constants / is_critical / benign list; the Reader-level rules '
                '(MissingImageData, UnknownFilterMethod, NoMoreImageData) are checked on the implementation only; fdeflate by contract.',
  'gen_items': ['chunk.consts', 'chunk.is_critical', 'parse_chunk.benign', 'signature'],
  'model_name': 'Model/Stream.v (L0 machine) with the reference inflater',
  'rule': 'cases = for each generated valid PNG/APNG (all colour types, interlace, ancillary chunks, 1-4 frames) every injection class (signature, IHDR placement and '
          'fields, second PLTE, no IDAT, split IDAT run, truncated/corrupt zlib stream of a random frame, sequence numbers, fdAT without fcTL, short fdAT, frame rectangle '
          'empty/outside/wrapping, undefined filter byte) with CRCs recomputed, under three option sets; the affected frame must not be delivered Ok. Plus all chunk-kind '
          'sequences over a 9-letter alphabet to length 5 (6 thorough) against the reference ordering automaton. distinct = (class, base) signatures.',
  'trusted_base': ['hand model of src/decoder/stream.rs in coq/Model/Stream.v, tied by differential execution', 'reference ordering automaton in harness/src/c10.rs'],
  'assumptions': ['header fields are bytes', 'CRCs of injected files are recomputed so that the structure, not the checksum, is what is refused'],
 },
 'C11': {
  'level_text': 'Coq theorems (closed under the global context) about the CRC transition and the inflater wrapper of the stream-machine model, for every state/field value/'
                'inflater: a CRC mismatch in a critical chunk, in fdAT, or with skipping off is a fatal CrcMismatch that poisons the decoder; a matching CRC completes the chunk; '
                'a skipped ancillary mismatch emits nothing; with ignore_crc the transition is independent of the field and the CRC is not accumulated; every inflate call asks '
                'for Adler-32 verification exactly as the latched flag says and the flag survives every reset. The full statement "a chunk with a wrong CRC contributes nothing" '
                'is REFUTED for parsed ancillary kinds by a machine-checked witness (known finding). Tied and searched by per-chunk corruption on every run.',
  'level_note': 'Trusted: Coq kernel; hand model of stream.rs/zlib.rs wrapper tied by differential execution; fdeflate honours the ignore-Adler flag (contract, tested every run). '
                'Known finding listed in known_findings.json: ancillary chunks are parsed before their CRC is compared.',
  'gen_items': ['chunk.is_critical', 'DecodeOptions::default'],
  'model_name': 'Model/Stream.v parse_u32 (KCrc), z_decompress, zreset',
  'rule': 'cases = for each generated valid PNG/APNG: every chunk (sampled when > 8) x {data bit flip, CRC bit flip, CRC replaced, type bit flip} x {skip on, skip off}: '
          'critical/fdAT/skip-off must fail no later than the chunk\'s frame, ancillary+skip must equal the stream without the chunk or fail; all CRC fields replaced (0, ~0, random) under '
          'ignore_crc must give the identical Reader result and event trace; the Adler-32 of a random frame\'s stream corrupted, checked on (must fail that frame) and off (identical result). '
          'distinct = (chunk type, corruption kind, option set, position) signatures.',
  'trusted_base': ['hand model of src/decoder/stream.rs in coq/Model/Stream.v, tied by differential execution', 'fdeflate Adler-32 behaviour by contract'],
  'assumptions': ['"result" = Reader-level metadata + pixels (the CRC value carried inside ChunkComplete events is not part of it)'],
 },
 'C16': {
  'level_text': 'Coq theorems (closed under the global context) about the chunk parsers of the stream-machine model: for ALL legal field values the parser applied to the '
                'specification\'s big-endian layout stores exactly those values (gAMA, pHYs, cHRM, sRGB, acTL, cLLI, cICP, mDCV with its reordering and doubling, fcTL with all nine fields, text keyword splitting); later '
                'instances of first-wins kinds change nothing; duplicates of gAMA/cHRM/sRGB/pHYs/tRNS are parser errors that (benign list regenerated from the source) never '
                'leave parse_chunk; unknown chunk types touch only the control state; no parser touches the byte counter/control state. Tied and searched on every run by a '
                'reference writer with expectations computed from the values.',
  'level_note': 'Trusted: Coq kernel; hand model of the parsers in stream.rs tied by differential execution; translator for the benign list and chunk constants; iCCP/zTXt/iTXt inflate by contract '
                '(reference inflater in the correspondence); Latin-1/UTF-8 decoding of text is C20.',
  'gen_items': ['parse_chunk.benign', 'chunk.consts'],
  'model_name': 'Model/Stream.v per-chunk parsers and parse_chunk',
  'rule': 'cases = per generated base image (all 15 colour/depth pairs, both interlace methods): each of 15 ancillary kinds with arbitrary legal values (boundary u32s, random blobs, '
          'Latin-1/UTF-8 strings, payloads crossing the 32 KiB buffer) placed before PLTE / before IDAT / after IDAT -> the Info field must equal the value; a second instance with other '
          'values -> first kept; sRGB present/absent -> gamma()/chromaticities() accessors; malformed or misplaced benign kinds, garbage iCCP, unknown ancillary chunks -> result identical '
          'to the file without them. distinct = (kind, colour type, position, payload size class).',
  'trusted_base': ['hand model of the chunk parsers in coq/Model/Stream.v, tied by differential execution', 'reference chunk writer in harness/src/c16.rs'],
  'assumptions': ['field values within their types (u32/u16/u8); keywords 1..79 bytes without NUL'],
 },
 'C01': {
  'level_text': 'Coq theorems (closed under the global context): the row pipeline of the decoder model (filter byte + reconstruction against the previous reconstructed row, reset per image/pass) equals '
                'the specification\'s reconstruction for EVERY inflated stream, row count, pixel size and row length, with the same errors for short streams and undefined filter bytes, for both predictor '
                'selections; the row length is a whole number of filter units for all 15 legal pairs and every width. INTERLACED IMAGES: for all 15 legal pairs, every size and every inflated stream, when the model of the whole Adam7 decode delivers an image, its rows are the specification\'s reconstruction of the seven pass images, every pixel (x, y) holds bit for bit the pixel of the pass row the Adam7 pattern assigns to it, and every padding bit is zero (composes C14 per-row filters and C15 Adam7 placement with the glue between byte lists and images). The output buffer '
                'of zlib.rs is modelled (Model/ZlibBuf.v over the regenerated LOOKBACK_SIZE / COMPACT_FACTOR / CHUNK_BUFFER_SIZE) and proved to deliver every produced byte exactly once in order and to keep the most recent min(total, 32768) bytes available for back-references for every split of the output over calls. Inflate itself by '
                'contract; chunk framing by the L0 machine; unfiltering_buffer.rs is modelled (Model/UnfiltBuf.v) and proved to refine the pipeline\'s row loop for every way the inflater output arrives and every compaction; its cursors are compared with the real buffer (hook) after every row call.',
  'level_note': 'Trusted: Coq kernel; translator (Paeth predictors, filter-byte decoding, Adam7 tables); hand models of filter.rs loops / adam7.rs / the row loop of mod.rs; fdeflate implements RFC 1950/1951 '
                '(contract; reference inflater Base/Inflate.v in the correspondence); the zlib.rs buffer model is tied by comparing its cursors with the real ZlibStream after every decompress call (C06 check, hook); the unfiltering_buffer.rs model is tied the same way (cursors after every row call, hook); '
                'large images, far back-references and aligned block boundaries are decoded differentially.',
  'gen_items': ['filter_paeth_decode', 'RowFilter::from_u8', 'unfilter_first_row_subst', 'Adam7Iterator::init_pass', 'expand_adam7_bits', 'expand_pass.store', 'zlib.constants'],
  'model_name': 'Model/Pipeline.v decode_frame (reference inflate -> unfilter_rows -> expand_pass)',
  'rule': 'cases = images built by the independent reference writer: 15 colour/depth pairs x {plain, Adam7} x widths 1..9 and random to 40 (70) x heights x per-row filter vectors (fixed 0-4, random) x 7 deflate '
          'producers x 1-6 IDAT splits incl. empty chunks x 4 delivery schedules; all (w,h) <= 9^2 (24^2); images of 0.2-1 MB inflated data; hand-built fixed-Huffman matches at distance 32768 after > 128 KiB; '
          'stored blocks / IDAT chunks ending on scanline boundaries with Up/Avg/Paeth rows. Decoded through next_frame and compared with the specification reference (pixels + geometry); small ones also '
          'with the extracted Coq pipeline. distinct = (colour, depth, interlace, w mod 8, h mod 8) etc.',
  'trusted_base': ['hand models in coq/Model/{Filter,Adam7,Pipeline}.v tied by differential execution', 'reference PNG writer harness/src/pngbuild.rs + c01.rs'],
  'assumptions': ['default (identity) transformation', 'fdeflate decodes every RFC 1951 stream as the reference does (tested on every generated stream)'],
 },
 'C04': {
  'level_text': 'Coq theorems (closed under the global context). The property is PROVED for the streaming decoder - for the EXECUTABLE model (reference inflater, proved to meet the contract in Proofs/InflatePrefix.v) with NO premise (C04_executable_model_is_delivery_independent), and for any inflater under the prefix-determinacy contract (C04_decoding_is_delivery_independent): for every byte string, every option set and limit and ANY two ways of '
                'cutting the bytes into successive buffers, the driver feed of the L0 model (the loop the correspondence check runs against StreamingDecoder::update) yields the same observation - the same events other than '
                'Nothing/ImageData, the same image bytes with every ImageDataFlushed, the same end (complete decoder state incl. metadata at IEND / end of input; the same error and metadata on failure). Only premise: the '
                'prefix-determinacy contract of the external inflater (output / error / end of stream determined by a prefix stay determined; shown satisfiable). Proof: inflater wrapper cut-invariant in every state -> one transition on '
                'p++q = transition on p, or transitions on p and q merged (field, body or image data straddling the cut) -> runs of transitions -> lists of pieces -> the fuelled loops of update/feed, which never run dry '
                '(5*|buffer|+rank decreases with every transition). ROWS: a row-level Reader run (portions appended to the unfiltering buffer with compaction, previous-row resets, row requests) delivers, for the same requests over the same total data, the same rows and outcome - or a prefix when a run stopped for lack of data (the exception the property itself states) - and composed with the machine: the rows of the first frame are the same for any two cuts of the input, any portions and any interleaving (C04_rows_are_delivery_independent, C04_executable_model_frame_rows_are_delivery_independent). PARTIAL with respect to the rest of the Reader: its pull loop (which requests it issues, later frames, error order between rows and later chunks) is not in a theorem; it is decided on every run by the '
                'metamorphic check on the implementation (whole vs byte-by-byte vs every single cut point vs random schedules, at StreamingDecoder and Reader level) and has one known finding.',
  'level_note': 'Trusted: Coq kernel; hand model of stream.rs tied by differential execution of event traces (l0 cases); fdeflate streaming behaviour by the stated contract (zinf_contract), which is a hypothesis of the theorem, not an axiom; '
                'the Reader pull loop is measured, not proved (its buffer operations are modelled in Model/UnfiltBuf.v, tied by the cursor hook after every row call).',
  'gen_items': ['CHUNK_BUFFER_SIZE', 'signature', 'chunk.consts'],
  'model_name': 'Model/Stream.v next_state (field accumulation, body buffering) / StreamRun.v feed',
  'rule': 'cases = generated valid files with ancillary chunks, structural and byte mutations, corpus files; each under whole / 1..13-byte pieces / every single cut point (files <= 700 B; 4096 B thorough) / '
          'random multi-cut schedules, through StreamingDecoder::update (observation: events without Nothing/PartialChunk/ImageData markers, flushed image data hash, end state, Info dump) and through the '
          'Reader over a piecewise BufRead (frames, errors, finish, Info); model-vs-implementation traces for small files. distinct = (kind, length class, observation class).',
  'trusted_base': ['hand model of src/decoder/stream.rs in coq/Model/Stream.v, tied by differential execution'],
  'assumptions': ['the amount of partial image data handed out before a failure is not compared (as the property allows)'],
 },
 'C08': {
  'level_text': 'Coq theorems (closed under the global context): advertised output colour type/bit depth = documented for all 15 kinds x 8 flag subsets x tRNS presence; advertised line size = packed size '
                'for every width; the RGBA palette table (4-byte copy with alpha repair) equals the documented palette at every index for EVERY PLTE and tRNS payload and never panics; and for EVERY kernel of the dispatcher - copy, STRIP_16, '
                'colour key / ALPHA at 8 and 16 bits (with and without STRIP_16), sub-byte grey expansion (with and without colour key), palette expansion at depth 1, 2, 4 and 8 (RGB and RGBA, incl. the 4-bytes-at-a-time RGB writer) - '
                'the row computed by the model of the conversion loops equals the documented pixel-wise conversion for every width and every row content. The loops are hand-modelled and tied to the crate by model = implementation = independent reference conversion on generated images.',
  'level_note': 'Trusted: Coq kernel; hand model of transform.rs / palette.rs / output_color_type (coq/Model/Transform.v) tied by differential execution through the public API; reference conversion in harness/src/c08.rs. '
                'Not proved: transform_row = spec_convert for the row loops.',
  'gen_items': [],
  'model_name': 'Model/Transform.v transform_row, output_color_type, create_rgba_palette',
  'rule': 'cases = images built by the reference writer for all 15 colour/depth pairs x {no tRNS, short, equal, long tRNS} x palettes of 1..256 entries (every length thorough) x colour keys that occur / nearly occur '
          '(one byte off) / do not occur x out-of-range palette indices x plain/Adam7; each decoded under all 8 flag subsets through next_frame and next_row and compared with the documented conversion (pixels, colour '
          'type, bit depth, line size, buffer size); one-row images also through the extracted Coq model. distinct = (colour, depth, flags, interlace, palette size class, tRNS size class).',
  'trusted_base': ['hand model coq/Model/Transform.v tied by differential execution', 'reference conversion harness/src/c08.rs written from the documentation'],
  'assumptions': ['the colour key of grey/RGB images below 16 bits is the low byte of each 16-bit tRNS sample (as the decoder stores it)'],
 },
 'C02': {
  'level_text': 'PARTIAL. Coq theorems (closed under the global context): the panic sites of the MODELLED code are unreachable - Reader cursor (frame counter subtraction, both assertions, frame_control.unwrap) from every state and '
                'visible prefix; create_rgba_palette for every PLTE/tRNS payload; expand_pass for every legal argument; StreamingDecoder::update never exhausts its loop budget and every error/panic outcome poisons; the stream machine as a whole reaches NEITHER of its two panic sites (state unwrap, fdAT sequence-number assertion/subtraction) for any bytes, options, limit, cuts and ANY inflater behaviour, also after reset(), and its chunk parsers have no panic outcome. Panics of '
                'un-modelled code (std, fdeflate, buffer index arithmetic, row transforms, text) and aborts cannot be exhibited by a Gallina model: they are searched on every run with catch_unwind in a build with overflow '
                'checks and debug assertions, plus the orchestrator watchdog for aborts/hangs.',
  'level_note': '''Trusted: Coq kernel; hand model of the Reader cursor (coq/Model/Reader.v) tied by differential execution of op sequences (C13 harness emits the abstract trace of every sequence and the extracted model must reproduce it); models of palette.rs / adam7.rs / stream.rs tied by their own correspondences. The search half is exploration, not proof.''',
  'gen_items': [],
  'model_name': 'Model/Reader.v step; Model/Transform.v create_rgba_palette; Model/Adam7.v expand_pass_model; Model/Stream.v update',
  'rule': 'cases = valid generated PNG/APNG files, 1-2 structural/byte mutations of them, malformed palettes (0..1000 bytes), headers with extreme dimensions, acTL declaring 0/fewer/more frames, repository corpus and the upstream '
          'fuzz corpus with and without repaired CRCs; each under random transformation flags x 5 limits x random option bits x random op sequences (1-13 ops over next_frame / next_row / next_interlaced_row / read_row / '
          'next_frame_info / finish / getters) x inputs that temporarily end and grow between calls x piece schedules; all sequences of length 4 (5) on small files. distinct = (kind, file length).',
  'trusted_base': ['hand models tied by differential execution', 'catch_unwind search harness/src/c02.rs (exploration)'],
  'assumptions': ['buffers of the documented size are passed', 'release build with overflow-checks and debug-assertions enabled'],
  'timeout_quick': 900,
 },
 'C05': {
  'timeout_thorough': 6000,
  'level_text': 'Coq theorems (closed under the global context). Bytes (stream machine; for the executable model with its reference inflater NO premise, for any other inflater the prefix-determinacy contract): a stream that decodes without an error reports NO error on any of its prefixes - the run '
                'ends for lack of input, ready to go on - and however the input then grows (any list of increments) the observation (events, image bytes, metadata, end) is that of decoding the complete input in one go '
                '(corollaries of the whole-stream delivery theorem of C04). Reader cursor model with the visible input prefix a parameter of every call: a row call that runs out of input changes nothing; finish() is resumable; a '
                'whole-frame call that runs out of input has written a prefix of the rows and, repeated on any longer input, gives exactly the outcome of one call on that input (rows d1 ++ d2). Not proved: the link between the two '
                'levels (Reader rows over the image bytes of the machine), next_frame_info - decided by the harness on every run.',
  'level_note': '''Trusted: Coq kernel; hand model of the Reader cursor (coq/Model/Reader.v) tied by differential execution of op sequences (C13 harness emits the abstract trace of every sequence and the extracted model must reproduce it); fdeflate prefix-stability by contract.''',
  'gen_items': ['CHUNK_BUFFER_SIZE', 'signature', 'chunk.consts'],
  'model_name': 'Model/Reader.v step with visibility; Model/Stream.v + StreamRun.v feed on prefixes',
  'rule': 'cases = generated valid PNG/APNG files (incl. Up/Avg/Paeth rows, multi-IDAT, a 40 KB text chunk after the image data) x truncation points (all for files < 260 B, every 3rd otherwise; all thorough) x growth '
          'schedules {+1, random, all-at-once} x the retried call in {next_frame (same buffer), next_row, read_row, next_interlaced_row, next_frame_info, finish} (+ read_header_info) x two piece schedules: the final outcome '
          'must equal the one-shot outcome; plus every prefix alone: no format error, no frame that differs from the complete file\'s. distinct = (path, cut mod 97, length mod 13).',
  'trusted_base': ['hand model coq/Model/Reader.v tied by differential execution', 'growing-prefix BufRead harness/src/readerrun.rs'],
  'assumptions': ['read_info consumes the decoder and is outside the quantifier (as in the property)', 'next_frame is retried with the same buffer'],
  'timeout_quick': 900,
 },
 'C09': {
  'level_text': 'Coq theorems (closed under the global context) on the Reader cursor model for every valid image: successive whole-frame requests return frames 0..n-1 in order, each with all its rows, then end-of-image '
                '(stable). Frame-control decoding is C16_fcTL, sequence numbers C10, inflater reset C11, layout at any stride and independence of previous buffer contents C15_expand_image, pixels C01. Tied and searched by '
                'generated APNGs compared with the specification under three buffer pre-fills and by every rectangle in a small canvas.',
  'level_note': '''Trusted: Coq kernel; hand model of the Reader cursor (coq/Model/Reader.v) tied by differential execution of op sequences (C13 harness emits the abstract trace of every sequence and the extracted model must reproduce it); reference APNG writer harness/src/gen.rs.''',
  'gen_items': [],
  'model_name': 'Model/Reader.v frames_run',
  'rule': 'cases = generated valid APNGs: all colour/depth pairs, both interlace methods, 1-4 frames, sub-frames of random size/offset, 1-3 fdAT chunks per frame (some empty), default image inside or outside the animation, '
          'ancillary chunks between frames; plus every (w,h,x,y) inside a 4x3 (6x5) canvas, interlaced and not. Each decoded with next_frame into buffers pre-filled with 0x00 / 0xFF / random: frame count, OutputInfo geometry, '
          'frame-control values, pixels (padding bits masked) vs the specification, independence of the pre-fill, end-of-image after the last frame. distinct = (colour, depth, interlace, frame count, size class).',
  'trusted_base': ['hand model coq/Model/Reader.v tied by differential execution', 'reference APNG writer'],
  'assumptions': ['padding bits after the last pixel of a sub-byte row are not pixels and are not compared'],
 },
 'C13': {
  'level_text': 'Coq theorems (closed under the global context) on the Reader cursor model: a row call delivers exactly the row under the cursor; a whole-frame call writes exactly the consecutive rows from the cursor (row 0 for a '
                'fresh frame) and on success all rows to the end; the cursor invariant is preserved by every call - so every mix of calls delivers each row of a frame once, in order; a frame call made in mid-frame stays on its frame and, with the whole input there, SUCCEEDS with exactly the outstanding rows - also when the data sequence of the last frame was flushed early and the frame already counted off (the state in which next_frame used to answer end-of-image: fix f28453e). Row contents: C01/C15. The model is tied to '
                'the code by replaying EVERY op sequence to length 4 (5) and random longer ones on generated files through the extracted model, and all delivered frames are compared with the whole-frame decode.',
  'level_note': '''Trusted: Coq kernel; hand model of the Reader cursor (coq/Model/Reader.v) tied by differential execution of op sequences (C13 harness emits the abstract trace of every sequence and the extracted model must reproduce it); next_row / next_interlaced_row / read_row are one model operation (they share read_row); the scratch buffer handling is checked on the implementation only.''',
  'gen_items': [],
  'model_name': 'Model/Reader.v step',
  'rule': 'cases = 12 (40) generated files covering interlace x animation x default image in/out x sub-frames; all op sequences over {next_frame, next_row, next_interlaced_row, read_row, next_frame_info, finish, getters} '
          'to length 4 (5) + 120 (600) random sequences of 5-40 ops per file + sequences under EXPAND/STRIP/ALPHA; rows re-assembled (interlaced: public expand_interlaced_row) and every completed frame compared with the '
          'single whole-frame decode; abstract traces compared with the Coq model; plus 6 tall highly-compressible APNGs (raw frame size just over / well over 32 KiB, so that the data sequence is flushed while rows are still buffered) x row-call counts around the 32 KiB edge x 4 continuations x 3 prefixes: a frame call made in mid-frame must come back with the SAME frame. distinct = (file class, frames delivered).',
  'trusted_base': ['hand model coq/Model/Reader.v tied by differential execution', 'op-sequence runner harness/src/ops.rs'],
  'assumptions': ['padding bits of sub-byte rows are not compared'],
 },
 'C18': {
  'level_text': 'Coq theorems (closed under the global context): Reader cursor model - after a successful finish() every call is refused, writes nothing, stays there; after the last frame frame calls report end-of-image and row '
                'calls no-more-rows; no panic site reachable from any state. Stream machine - the poisoned state is absorbing and answers at once; reset() yields the state of a new decoder (exactly the initial state when the '
                'Adler flag is the one the options give; the chunk buffer is back at its initial capacity - fix a8a7222 - so no premise about it remains). Not proved: Reader-level non-poisoning errors never followed by a success for the same frame (decided by the harness).',
  'level_note': '''Trusted: Coq kernel; hand model of the Reader cursor (coq/Model/Reader.v) tied by differential execution of op sequences (C13 harness emits the abstract trace of every sequence and the extracted model must reproduce it); hand model of stream.rs reset tied by the l0reset correspondence cases.''',
  'gen_items': ['CHUNK_BUFFER_SIZE'],
  'model_name': 'Model/Reader.v step; Model/Stream.v update, reset_model',
  'rule': 'cases = valid files and files failing at every stage (mutations, undefined filter bytes in plain and interlaced images): 6 draining heads x all tails of length 3 (4) + random 8-40 op sequences; rules: nothing succeeds '
          'after PolledAfterFatalError, nothing after finish() Ok, no frame data after all frames were delivered, no success for a frame that already failed; all ordered pairs from ~20 streams (complete, cut mid-IDAT, cut in the '
          'header, mutated) decoded before/after StreamingDecoder::reset vs a new decoder, two option sets; reset pairs also through the Coq model. distinct = (file class, frames delivered, last result class).',
  'trusted_base': ['hand models tied by differential execution'],
  'assumptions': ['finish() may succeed once after the last frame (documented way to read trailing metadata)'],
 },
 'C12': {
  'level_text': 'Coq theorems (closed under the global context). Frame rectangles (Model/FrameRect.v): for every sequence of frame setters and images on an animated encoder every fcTL written carries a non-empty rectangle inside the canvas and the first one is the canvas; with_info accepts a frame control iff it is the canvas rectangle. Chunk order: for EVERY configuration (still or animated with any frame count, default image in/out of the animation, PLTE, ancillary chunks) and a history supplying exactly the '
                'declared images, each as any positive number of data chunks, the chunk-kind sequence emitted by the Writer model is accepted by the strict ordering validator (IHDR first, acTL before IDAT, one fcTL per frame, IDAT '
                'only for the first image, fdAT afterwards, sequence numbers 0.. without gaps, frame count = acTL, IEND last and once) - by a simulation invariant between writer and validator, not by enumeration. Bytes (lengths, '
                'CRCs, zlib streams ending exactly, inflated sizes, filter bytes) are validated on every run by an independent strict validator; known finding: StreamWriter on an animated encoder.',
  'level_note': 'Trusted: Coq kernel; hand model of the chunk-level Writer (coq/Model/Encoder.v) tied by differential execution (chunk-kind sequences of whole-image histories); independent validator harness/src/validator.rs '
                '(own chunk parser, crc32fast, flate2 inflate with exact-consumption check). The StreamWriter-on-animated-encoder path is a listed known finding and is not modelled faithfully.',
  'gen_items': [],
  'model_name': 'Model/Encoder.v emitted; Spec/Validator.v conformant',
  'rule': 'cases = random encoder configurations (15 colour/depth pairs, sizes 1-8 x 1-7, still / animated 1-4 frames, separate default image, 17 compression settings, 6 filters, palette) x histories that supply exactly the declared images '
          'through write_image_data or stream_writer_with_size(1..4096) with random write partitions, interleaved with raw chunks, text chunks, sub-frame dimensions/positions, delays, blend/dispose ops, filter changes; sinks accepting '
          'short writes; finish or drop. Every accepted history\'s bytes go through the strict validator; whole-image histories also through the Coq model. distinct = (colour, depth, frames, sep, stream, finish).',
  'trusted_base': ['hand model coq/Model/Encoder.v tied by differential execution', 'independent validator harness/src/validator.rs'],
  'assumptions': ['the first image of an animation covers the canvas (sub-frame setters are applied from the second image on)'],
 },
 'C19': {
  'level_text': 'PARTIAL. Coq theorems (closed under the global context) on the chunk-level models of the Writer, incl. Model/WriterFail.v = the Writer over a sink that starts refusing writes after any number of chunks, with or without '
                'sequence validation, the history ending in finish or in drop: (1) the sink accepts IEND at most once and nothing after it, for every history and every failure point; (2) when finish returns Ok no call of the history met a '
                'refused write and the sink holds exactly what a healthy sink holds (every chunk of every image taken, and IEND); (3) with sequence validation finish returning Ok means the complete conformant stream of the declared images, '
                'and a history in which every call returns Ok has the declared number of images. Tied to the crate by replaying every history with the sink refusing at every chunk boundary (results of all calls + chunks held by the sink '
                'vs the extracted model). The rest of the property - no panic for arbitrary op sequences, failures in the middle of a chunk, the stream writer\'s own finish/Drop path, setters, raw/text chunks - is decided on every run by '
                'fault enumeration: every history is replayed with the sink failing at each of its calls (once / permanently).',
  'level_note': 'Trusted: hand models of the Writer (Model/Encoder.v, Model/WriterFail.v) tied by correspondence; fault-injecting sink harness/src/c12.rs. Known findings listed in known_findings.json: sink failures swallowed after StreamWriter::finish; validation skipped by '
                'into_stream_writer; frame miscount of stream writers on animated encoders. Three defects repaired by fix: commits (size overflow, tiny chunk buffer panic/abort, first streamed image not validated).',
  'gen_items': [],
  'model_name': 'Model/Encoder.v (shared with C12)',
  'rule': 'cases = random configurations (incl. zero and 2^32-1 dimensions) x arbitrary histories (fewer / exact / more images than declared, illegal setter arguments, stream writers with buffer sizes 0..4096, owned stream writers stopping '
          'mid-frame, raw/text chunks) x validation on/off x finish or drop x the sink failing at EVERY call index of the history (sampled above 48 calls; all thorough), once and permanently, with and without short writes. Rules: no panic; '
          'at most one IEND in the accepted bytes; finish Ok (sink never failed, or no earlier error) => complete chunk stream ending in one IEND; with validation, image count = declared; plus 60 (600) streaming histories x fail-once at every sink call with the caller retrying the failed write/flush: failure at a chunk boundary + all retries Ok + finish Ok => validator accepts and the crate decodes the pixels written; plus 40 (300) animated encoders with all frames streamed through one (borrowed or owned) stream writer x sink failing at every call (once / permanently) with the caller simply continuing to write, flush and finish after every Err: no panic. distinct = (frames, validation, history length, failure plan).',
  'trusted_base': ['fault enumeration harness (exploration/fault_enumeration, not proof)'],
  'assumptions': ['"finish Ok => complete" is checked for every history in which the sink never failed (parameter errors of earlier calls do not excuse anything), for histories whose transient sink failure hit at a chunk boundary and was retried by the caller, and for histories without any earlier Err; it is NOT demanded when a sink failure tore a chunk (bytes of a chunk accepted, then the error) or was not retried: no later call can repair that stream'],
 },
 'C03': {
  'level_text': 'Coq theorems (closed under the global context): for every filter setting incl. Adaptive, every pixel size, every row length (multiple of it) and every list of rows, the decoder\'s row pipeline (equal to the specification: C01) '
                'applied to the stream of the model of the encoder\'s row loop returns exactly the rows; the encoder never refuses well-shaped rows. Composes C14 (filters are inverse incl. first row). STREAM WRITER (still images): however the '
                'caller cuts the image into write calls, the scanline assembly of StreamWriter::write hands the compressor exactly the stream of the whole-image path (cut-invariance of write_all from every invariant state); whatever the bursts '
                'in which the compressor writes, the chunk layer (ChunkWriter) emits its output cut into IDAT chunks of the chunk size: together the data, none empty, none longer, all but the last full. Both layers are tied call by call '
                '(bytes accepted by every StreamWriter::write and the inflated IDAT stream; through a hook every ChunkWriter::write/flush result and emitted chunk). Short-writing sinks and the compressors are tied by the correspondence only '
                '(round trip through the crate\'s decoder AND an independent reference decoder).',
  'level_note': 'Trusted: Coq kernel; translator (Paeth predictors, filter-byte decoding); hand models of filter.rs loops, of the encoder row loop (coq/Model/EncodePipeline.v) and of the two stream-writer buffering layers '
                '(coq/Model/StreamWriterBuf.v) tied by differential execution; fdeflate / flate2 compress such that inflating returns the input (contract, checked every run); write_all over failing/short-writing sinks and the animated '
                'stream-writer path (known finding) are not modelled.',
  'gen_items': ['filter_paeth_encode', 'filter_paeth_decode', 'RowFilter::from_u8', 'sum_buffer.weight'],
  'model_name': 'Model/EncodePipeline.v encode_image + Model/Pipeline.v unfilter_rows + Model/StreamWriterBuf.v sw_trace / cw_trace',
  'rule': 'cases = 15 colour/depth pairs x 6 filter settings x widths 1..70 (crossing the 32-byte chunk and all remainders) x heights 1..8 x 17 compression settings x {write_image_data, stream_writer_with_size(1..4096)} x write '
          'partitions x sinks accepting 1-10 bytes per call; rows of 4-70 KiB (adaptive/vector paths); each output decoded by the crate and by the independent reference decoder and compared with the bytes given; filtered scanlines '
          'compared with the Coq model for explicit deflate levels; stream-writer call traces (pieces of 0 / 1 / row / row+1 / random bytes, data beyond the image) and chunk-layer call traces through the hook (chunk sizes 0..4096, writes of 0..2*size+3 bytes, flushes) against the extracted model. distinct = (colour, depth, filter, compression, way, row length mod 32).',
  'trusted_base': ['hand models tied by differential execution', 'independent reference decoder harness/src/c03.rs'],
  'assumptions': ['single (non-animated) image, as the property states', 'NoCompression / UltraFast-fallback paths bypass filtering (checked by round trip only)'],
 },
 'C20': {
  'level_text': 'Coq theorems (closed under the global context): Latin-1 coding maps every byte string to the string with the same code points and back; a string is refused if and only if it has a code point above 255; for the '
                'text-chunk state machine (compress_text / decompress_text_with_limit) over ANY compressor K and bounded inflater I meeting the codec contract: both operations are idempotent, mutually inverse, a failed '
                'decompression yields no new state (the chunk stays the compressed, usable one) and a successful bounded decompression never holds more than the limit. The reference instance of I that the correspondence '
                'check executes is proved bounded. The contract of the real codecs (fdeflate / flate2) and the allocation behaviour are checked on every run (counting allocator).',
  'level_note': 'Trusted: Coq kernel; hand model coq/Model/Text.v of text_metadata.rs tied by differential execution (Latin-1 both directions on all single and paired byte values; bounded inflate on bombs/corrupt payloads); '
                'the codec contract [I (K raw) n = Ok raw for |raw| <= n; outputs bounded by n; outputs are bytes] is a hypothesis about fdeflate/flate2, exercised by the harness, not proved. UTF-8 validity of iTXt is std::str::from_utf8 (checked by the harness against the Coq utf8_valid in C16).',
  'gen_items': [],
  'model_name': 'Model/Text.v decode_latin1, encode_latin1, compress_text, decompress_text_with_limit, inflate_bounded',
  'rule': 'cases = (a) every byte value and every pair of byte values with a high byte (all 255^2 in the thorough tier) as tEXt / zTXt payloads decoded by the crate, and the corresponding strings encoded through Encoder::add_text_chunk; '
          'strings with code points above 255 at every position class; the same through the extracted model; (b) random Latin-1 / Unicode strings of 0..70000 (400000) characters through compress/decompress/get_text/limits on '
          'ZTXtChunk and ITXtChunk objects (idempotence, inverse, failure leaves chunk usable, exact-limit success, limit-1 failure); (c) iTXt payloads from a UTF-8 fragment alphabet (valid and invalid); (d) bombs (30-200 MB of one byte), '
          'corrupted and random payloads x limits {0,1,1023..1025,32767..32769,2 MiB}: peak heap growth measured by a counting allocator must stay below 3*limit + 70000, result Ok only if the text fits, and equal to the model\'s for small payloads. '
          'distinct = (kind, length class, high-byte presence / payload, limit).',
  'trusted_base': ['hand model tied by differential execution', 'codec contract of fdeflate / flate2 (Section hypotheses inflate_compress, bounded, inflate_bytes of Proofs/TextProofs.v)', 'counting global allocator harness/src/alloc.rs'],
  'assumptions': ['a Rust String is the list of its Unicode scalar values', 'peak allocation bound 3*limit + 70000 bytes (output buffer + String conversion + decompressor tables) is the harness\'s reading of "never materialises more than that many bytes"'],
 },
 'C17': {
  'level_text': 'Coq theorems (closed under the global context): for ALL values, the decoder model\'s chunk parser applied to the payload built by the model of the encoder stores exactly the value given - pHYs, gAMA, cHRM, sRGB, acTL, '
                'fcTL (nine fields), PLTE, tRNS (indexed bytes / gray sample value), eXIf, iCCP (any size within the budget), tEXt, zTXt, iTXt (keyword, flag, language tag, translated keyword, text); keyword acceptance is exactly '
                '"1..79 characters, all Latin-1"; tEXt/zTXt refuse non-Latin-1 text, iTXt refuses a non-ASCII language tag, all three refuse a bad keyword; with sRGB set only substitutes and no ICC profile are written and the accessors report the substitutes. '
                'Compressor/inflater universally quantified under the codec contract. Encoder payload builders and the header emission order are tied to the crate by differential execution of every header, text and fcTL payload the real encoder writes.',
  'level_note': 'Trusted: Coq kernel; hand models Model/MetaEnc.v (encoder payloads) and Model/Stream.v (decoder parsers, shared with C16) tied by differential execution; codec contract of flate2/fdeflate (hypotheses inflate_compress, zall_K); chunk framing '
                'is C12/C04/C11, not re-proved here. Known finding: a zero-length eXIf block is read back as absent (the decoder never parses zero-length chunks).',
  'gen_items': [],
  'model_name': 'Model/MetaEnc.v header_chunks, enc_text, enc_ztxt, enc_itxt, enc_fctl, enc_iccp + Model/Stream.v parse_*',
  'rule': 'cases = (a) refusal matrix: 7 bad + 4 boundary keywords x 3 text kinds x {header, write_text_chunk}; non-Latin-1 text; non-ASCII language tags; (b) all sRGB intents x gamma {none, substitute, other} x chromaticities x ICC x {Info fields, setters}; '
          'u32 boundaries for pHYs/gAMA/cHRM; all dispose x blend ops x separate default image; (c) 700 (6000) random metadata sets: 15 colour/depth pairs, optional items, blobs 0 B .. 70 KiB (400 KiB), Latin-1 keywords incl. control / NBSP characters, '
          'Unicode texts, pre-compressed chunk objects, late text chunks, 1-4 frames with random rectangles/delays/ops. Each: encode with the crate, compare every header / text / fcTL payload with the extracted model (zlib tails inflated), decode with the crate, '
          'compare every item through Info / gamma() / chromaticities() / frame_control / get_text. distinct = (colour, depth, sRGB, ICC size class, EXIF, animation, separate default, text count, API path).',
  'trusted_base': ['hand models tied by differential execution', 'codec contract of flate2 / fdeflate (Section hypotheses of Proofs/MetaEncProofs.v and Proofs/TextProofs.v)'],
  'assumptions': ['keywords, language tags and translated keywords without NUL (a NUL there is the field separator; "where legal" in the property)',
                  'tRNS of gray/RGB images below 16 bits: the sample value (low byte) is what Info.trns holds; high bytes are zero in legal files',
                  'frame sequence numbers are not compared (they depend on the number of fdAT chunks; continuity is C12)',
                  'with sRGB set, gamma/chromaticities other than the substitutes and ICC profiles are not written (documented on Encoder::set_source_srgb); the accessors then report the substitutes'],
 },
 'C06': {
  'level_text': 'PARTIAL. Coq theorem (closed under the global context): the allocation ledger of the stream-machine model - for every option set, limit L >= 0, input and delivery schedule, in every reachable state the budget stays in [0, L], '
                'the capacity of the chunk body buffer stays in [32 KiB, L + 32 KiB] and the buffer never exceeds it, the accounted metadata copies (PLTE, tRNS, sBIT, ICC profile, every text field) total at most L, and metadata + buffer growth + '
                'remaining budget <= L; none of the bounds mentions declared dimensions, chunk lengths, chunk counts or inflated sizes. The model\'s budget is compared with Limits::bytes of the real decoder (hook) on every run. A second theorem bounds the inflater output buffer of zlib.rs (model Model/ZlibBuf.v over the regenerated LOOKBACK_SIZE, COMPACT_FACTOR, CHUNK_BUFFER_SIZE): never more than 2*(4*32768+32768) = 327680 bytes however much the stream inflates to; its cursors are compared with the real ZlibStream (hook) after every decompress call. Real heap use (Vec growth, '
                'unfiltering and row buffers, fdeflate tables, String conversion) is a runtime fact no Gallina model exhibits: it is measured by a counting global allocator on hostile inputs and must stay below 128*L + 2 MiB.',
  'level_note': 'Trusted: Coq kernel; hand model Model/Stream.v tied by differential execution (events: C04/C10/C11/C16; budget: here); counting allocator harness/src/alloc.rs (requested sizes, not allocator slack); the constants 128 and 2 MiB are fixed in '
                'harness/src/c06.rs with their derivation (minimal tEXt chunk: <= 72.5 held bytes per accounted byte; measured 28-31). Not modelled: Reader scratch buffers, text_metadata decompression (C20).',
  'gen_items': ['zlib.constants', 'CHUNK_BUFFER_SIZE'],
  'model_name': 'Model/Stream.v budget / c_cap / reserve / reserve_current_chunk (l0_budget); Model/ZlibBuf.v (zb_cursor_run)',
  'rule': 'cases = (a) 260 (1500) small valid / ancillary-rich / mutated files x limits {0,5,40,200,1000,32768,40000,64 MiB} x options x delivery schedules: remaining Limits::bytes (hook) vs the model\'s budget; (a2) 11 (43) images incl. interlaced, far-match and over-long streams fed in pieces of 33 B .. 1 MiB: (out_buffer.len, out_pos, read_pos) of the real ZlibStream after every decompress call vs Model/ZlibBuf.v; (b) hostile scenarios - IDAT bombs (60 MB / 400 MB '
          'behind a tiny image), big real images, headers up to (2^31-1)^2 x RGBA16 x interlace, chunk length fields 0x40000000..0xffffffff for 12 chunk types, 60k-600k ancillary chunks of 7 kinds incl. minimal text chunks, iCCP/zTXt/iTXt deflate bombs, '
          '2-5 MB plain chunks, APNGs with large frames and with bombs behind frames, random valid files - x L in {64 KiB, 256 KiB, 1 MiB, 16 MiB, 64 MiB} (6 limits thorough) x 6 decoding paths (read_info, next_frame with caller buffer, next_row, '
          'next_interlaced_row, next_frame_info skipping, finish) x 5 transformations (rotating; all for image scenarios in the thorough tier): peak live heap attributable to the library (caller buffers subtracted) <= 128*L + 2 MiB, no panic. '
          'distinct = (scenario, limit, path, outcome).',
  'trusted_base': ['hand model tied by differential execution', 'counting global allocator (exploration, not proof) for everything outside the ledger'],
  'assumptions': ['"a fixed linear function of L" is instantiated as 128*L + 2 MiB (any violation of it is reported; a smaller constant would alarm on the unchanged tree: minimal text chunks cost ~30 held bytes per accounted byte)',
                  'memory held by caller-supplied buffers and by the input slice is excluded'],
  'timeout_quick': 900,
 },
}

NOT_APPLICABLE = {}
