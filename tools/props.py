"""Per-property configuration of ./check (what to build, what ties the model to the code, evidence text)."""
PROPS = {
 'C14': {
  'level_text': 'Coq theorems (closed under the global context) that the model of unfilter equals the PNG specification\'s reconstruction for every '
                'filter type, pixel size, row length and content incl. first rows; that encoder filtering (5 fixed + adaptive) followed by it is the '
                'identity; and that each Paeth predictor, regenerated from the Rust source on every run, equals the specification on all byte triples '
                'without integer overflow. The loops are hand-modelled and tied to the crate by differential execution on every run.',
  'level_note': 'Trusted: Coq kernel; translator rs2v.py for the predictors; hand model of filter.rs loops + correspondence harness; extraction (ExtrOcamlBasic) '
                'and the OCaml driver. SIMD (feature unstable) paths not modelled.',
  'gen_items': ['filter_paeth', 'filter_paeth_stbi', 'filter_paeth_stbi_i16', 'filter_paeth_fpnge', 'filter_paeth_decode',
                'filter_paeth_encode', 'unfilter_first_row_subst', 'RowFilter::from_u8', 'sum_buffer.weight'],
  'model_name': 'Model/Filter.v unfilter_model, filter_model; Gen/GenPaeth.v predictors',
  'rule': 'cases = (a) all 2^24 byte triples through each compiled Paeth predictor vs the specification; (b) (filter type x bpp in {1,2,3,4,6,8} '
          'x first/later row x row length) rows with adversarial byte distributions, run through the crate (verif-hooks) and through the '
          'extracted Coq model; (c) 6 encoder filter settings x bpp x lengths around the 32-byte chunk and its remainders. A case is '
          'non-trivial when the row is longer than one pixel (paeth triples always); distinct = distinct (kind, filter, bpp, length, first-row) '
          'signatures, hashed.',
  'trusted_base': ['hand model of the loops of src/filter.rs (unfilter, filter_internal, filter, sum_buffer) in coq/Model/Filter.v, tied by differential execution',
                   'the unstable-feature SIMD paths of filter.rs are not modelled (feature off in the baseline build)'],
  'assumptions': ['BytesPerPixel in {1,2,3,4,6,8} and row length a multiple of it (guaranteed by common.rs row-length computation; proved for all bpp>0)',
                  'u64 saturating sum in sum_buffer never saturates (rows < 2^57 bytes)'],
 },
}

NOT_APPLICABLE = {}
