#!/usr/bin/env python3
"""mkprops.py <Cxx> <spec.json>: generate coq/Props/<Cxx>.v from a list of (theorem name, proved lemma, comment).
The statement of each theorem is the statement of the lemma as printed by Coq (so it is pinned textually in the
Props file and re-checked by `exact`).  spec.json: {"header": str, "imports": str, "theorems": [[name, lemma, comment],...],
"examples": str}"""
import sys, json, subprocess, re, os
pid, spec = sys.argv[1], json.load(open(sys.argv[2]))
COQ = '/verif/coq'
q = spec['imports'] + '\nSet Printing Width 110.\nSet Printing Depth 1000.\n' + ''.join('Check %s.\n' % l for _, l, _ in spec['theorems'])
open('/tmp/mkprops_q.v', 'w').write(q)
out = subprocess.run(['coqc', '-Q', COQ, 'PngV', '/tmp/mkprops_q.v'], stdout=subprocess.PIPE, stderr=subprocess.STDOUT).stdout.decode()
stmts = {}
for _, l, _ in spec['theorems']:
    m = re.search(r'^%s\s*\n\s+: (.*?)(?=^\S|\Z)' % re.escape(l), out, flags=re.S | re.M)
    if not m:
        print(out[-3000:]); sys.exit('no statement for ' + l)
    stmts[l] = m.group(1).rstrip()
body = '(* %s *)\n%s\n\n' % (spec['header'], spec['imports'])
for name, l, comment in spec['theorems']:
    body += '(* %s *)\nTheorem %s :\n  %s.\nProof. exact %s. Qed.\n\n' % (comment, name, stmts[l], l)
body += spec.get('examples', '') + '\n'
for name, _, _ in spec['theorems']:
    body += 'Print Assumptions %s.\n' % name
open(os.path.join(COQ, 'Props', pid + '.v'), 'w').write(body)
print('wrote Props/%s.v with %d theorems' % (pid, len(spec['theorems'])))
