#!/bin/bash
# usage: difftest.sh <dir> : run the OCaml model over <dir>/cases.txt and diff with <dir>/impl.txt
d=$1
( ulimit -s unlimited; /verif/build/ocaml/model.exe < $d/cases.txt > $d/model.txt )
python3 - "$d" <<'PY'
import sys
d=sys.argv[1]
c=open(d+'/cases.txt').read().split('\n'); i=open(d+'/impl.txt').read().split('\n'); m=open(d+'/model.txt').read().split('\n')
bad=[k for k in range(len(c)) if c[k] and i[k]!=(m[k] if k<len(m) else None)]
print('cases',len([x for x in c if x]),'disagreements',len(bad))
for k in bad[:int(sys.argv[2]) if len(sys.argv)>2 else 4]:
    a,b=i[k],m[k] if k<len(m) else '<missing>'
    # first difference
    j=0
    while j<min(len(a),len(b)) and a[j]==b[j]: j+=1
    print('CASE',c[k][:160]); print('  impl :',a[max(0,j-120):j+200]); print('  model:',b[max(0,j-120):j+200])
PY
