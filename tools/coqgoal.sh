#!/bin/bash
# usage: coqgoal.sh <file.v> <line>   -- show the goal after executing up to <line> (inclusive)
f=$1; n=$2
d=$(mktemp -d /tmp/cg.XXXX)
head -n $n "$f" > $d/T.v
echo "Show. Abort." >> $d/T.v
cd /verif/coq && timeout 300 coqc -Q . PngV $d/T.v 2>&1 | tail -${3:-40}
rm -rf $d
