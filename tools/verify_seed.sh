#!/bin/bash
# usage: verify_seed.sh <prop> <k> : confirm a seeded change (patch + demo) in a scratch worktree of /repo.
# Writes /tmp/seed_out/<prop>/<k>/verify.log ; prints a one-line verdict.  Removes the worktree afterwards.
P=$1; K=$2; D=${SEED_DIR:-/tmp/seed_out}/$P/$K; W=/tmp/vs_${P}_$K
export CARGO_NET_OFFLINE=true
git -C /repo worktree add -q --detach $W HEAD || exit 2
cd $W
export CARGO_TARGET_DIR=$W/target
{
cp $D/demo.rs tests/seed_demo.rs
echo "== demo WITHOUT change"; cargo test --offline --test seed_demo 2>&1 | tail -5; r0=${PIPESTATUS[0]}
git apply $D/patch.diff || { echo "PATCH DOES NOT APPLY"; r0=99; }
echo "== demo WITH change"; cargo test --offline --test seed_demo 2>&1 | tail -15; r1=${PIPESTATUS[0]}
rm tests/seed_demo.rs
echo "== suite WITH change"; cargo test --offline --workspace --no-fail-fast 2>&1 | grep -E "^test result|FAILED|failed" | head -20; r2=${PIPESTATUS[0]}
echo "r0=$r0 r1=$r1 r2=$r2"
} > $D/verify.log 2>&1
tail -1 $D/verify.log | sed "s/^/$P $K: /"
cd /; git -C /repo worktree remove --force $W
