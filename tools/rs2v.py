#!/usr/bin/env python3
"""rs2v: translate the pure integer kernels of image-png (a small Rust subset) to Gallina.

Usage: rs2v.py <repo_src_dir> <out_dir>      (writes <out_dir>/Gen*.v, only if content changed)

For every translated function `f` two definitions are emitted:
  f       : Z -> ... -> Z (or bool / tuple)  -- the value, over unbounded Z, casts made explicit
  f_safe  : Z -> ... -> bool                 -- conjunction of "no overflow" obligations of every
                                               non-wrapping arithmetic sub-expression (Rust debug semantics)
If an item cannot be translated (source was rewritten outside the subset) the item is reported in
<out_dir>/rs2v_report.json with status "untranslatable"; the orchestrator then falls back to the pinned
rendering plus exhaustive correspondence through the hooks (DESIGN section 4a).
"""
import re, sys, json, os

# ----------------------------------------------------------------------------- tokenizer
TOK = re.compile(r"""
   (?P<ws>\s+|//[^\n]*|/\*.*?\*/)
 | (?P<str>b?"(?:[^"\\]|\\.)*"|b?'(?:[^'\\]|\\.)')
 | (?P<float>\d[\d_]*\.\d[\d_]*(?:_?f(?:32|64))?)
 | (?P<int>0x[0-9a-fA-F_]+(?:_?[iu](?:8|16|32|64|128|size))?|0b[01_]+(?:_?[iu](?:8|16|32|64|size))?|\d[\d_]*(?:_?[iu](?:8|16|32|64|128|size))?)
 | (?P<id>[A-Za-z_][A-Za-z0-9_]*)
 | (?P<op>::|->|=>|==|!=|<=|>=|&&|\|\||<<|>>|\+=|-=|\.\.=|\.\.|[-+*/%&|^!<>=(){}\[\],;:.#@?])
""", re.X | re.S)

def tokenize(s):
    out = []; i = 0
    while i < len(s):
        m = TOK.match(s, i)
        if not m: raise SyntaxError("cannot tokenize at: " + s[i:i+40])
        i = m.end()
        k = m.lastgroup
        if k == 'ws': continue
        out.append((k, m.group(k)))
    out.append(('eof', ''))
    return out

INT_TYPES = {'u8': (0, 255), 'u16': (0, 65535), 'u32': (0, 2**32-1), 'u64': (0, 2**64-1), 'usize': (0, 2**64-1),
             'i8': (-128, 127), 'i16': (-32768, 32767), 'i32': (-2**31, 2**31-1), 'i64': (-2**63, 2**63-1),
             'isize': (-2**63, 2**63-1)}

class Untranslatable(Exception): pass

# ----------------------------------------------------------------------------- parser (AST as tuples)
class P:
    def __init__(self, toks): self.t = toks; self.i = 0
    def peek(self, k=0): return self.t[self.i+k]
    def next(self): x = self.t[self.i]; self.i += 1; return x
    def accept(self, v):
        if self.peek()[1] == v and self.peek()[0] in ('op', 'id'): self.i += 1; return True
        return False
    def expect(self, v):
        if not self.accept(v): raise Untranslatable("expected %r got %r" % (v, self.peek()))
    def ident(self):
        k, v = self.next()
        if k != 'id': raise Untranslatable("expected identifier got %r" % (v,))
        return v
    def ty(self):
        # simple types only: ident, &ident, (T, T)
        self.accept('&')
        if self.accept('('):
            ts = []
            while not self.accept(')'):
                ts.append(self.ty()); self.accept(',')
            return ('tuple', ts)
        n = self.ident()
        while self.accept('::'): n = self.ident()
        if self.accept('<'):
            self.ty(); self.expect('>')
        return n

    def fn(self):
        while self.peek()[1] in ('pub', '(', 'crate', ')', 'const'):
            self.next()
        self.expect('fn'); name = self.ident(); self.expect('(')
        params = []
        while not self.accept(')'):
            if self.accept('&'): pass
            if self.accept('mut'): pass
            pn = self.ident()
            if pn == 'self': params.append(('self', 'Self'))
            else:
                self.expect(':'); params.append((pn, self.ty()))
            self.accept(',')
        ret = None
        if self.accept('->'): ret = self.ty()
        body = self.block()
        return ('fn', name, params, ret, body)

    def block(self):
        self.expect('{'); stmts = []; tail = None
        while not self.accept('}'):
            if self.peek()[1] == 'let':
                self.next(); self.accept('mut')
                if self.accept('('):
                    names = []
                    while not self.accept(')'):
                        self.accept('mut'); names.append(self.ident()); self.accept(',')
                    pat = ('ptuple', names)
                else:
                    pat = ('pvar', self.ident())
                t = None
                if self.accept(':'): t = self.ty()
                self.expect('='); e = self.expr(); self.expect(';')
                stmts.append(('let', pat, t, e)); continue
            if self.peek()[1] == 'return':
                self.next(); e = self.expr(); self.accept(';')
                tail = e
                if not self.accept('}'): raise Untranslatable("code after return")
                break
            if self.peek()[1] == 'use':
                while self.next()[1] != ';': pass
                continue
            if self.peek()[1] == 'if':
                e = self.expr()
                if self.peek()[1] == '}': tail = e; continue
                self.accept(';')
                stmts.append(('ifstmt', e)); continue
            # assignment or tail expression
            save = self.i
            if self.peek()[0] == 'id' and self.peek(1)[1] in ('=', '+=', '-='):
                v = self.ident(); op = self.next()[1]; e = self.expr(); self.expect(';')
                if op == '+=': e = ('bin', '+', ('var', v), e)
                if op == '-=': e = ('bin', '-', ('var', v), e)
                stmts.append(('assign', v, e)); continue
            self.i = save
            e = self.expr()
            if self.accept(';'):
                if e[0] == 'macro' and e[1] in ('panic', 'unreachable') and self.peek()[1] == '}':
                    tail = e; continue
                raise Untranslatable("expression statement")
            tail = e
        return ('block', stmts, tail)

    PREC = [('||',), ('&&',), ('==', '!=', '<', '>', '<=', '>='), ('|',), ('^',), ('&',), ('<<', '>>'), ('+', '-'), ('*', '/', '%')]
    def expr(self, lvl=0):
        if lvl == len(self.PREC): return self.cast()
        l = self.expr(lvl+1)
        while self.peek()[0] == 'op' and self.peek()[1] in self.PREC[lvl]:
            op = self.next()[1]; r = self.expr(lvl+1); l = ('bin', op, l, r)
        return l
    def cast(self):
        e = self.unary()
        while self.peek()[1] == 'as' and self.peek()[0] == 'id':
            self.next(); e = ('as', e, self.ty())
        return e
    def unary(self):
        if self.accept('-'): return ('neg', self.unary())
        if self.accept('!'): return ('not', self.unary())
        if self.accept('*') or self.accept('&'): return self.unary()
        return self.postfix()
    def postfix(self):
        e = self.atom()
        while True:
            if self.accept('.'):
                k, v = self.peek()
                if k == 'int': self.next(); e = ('field', e, v); continue
                m = self.ident()
                if self.accept('('):
                    args = []
                    while not self.accept(')'):
                        args.append(self.expr()); self.accept(',')
                    e = ('method', m, e, args)
                else: e = ('field', e, m)
            else: return e
    def atom(self):
        k, v = self.peek()
        if k == 'int':
            self.next(); m = re.match(r'^(0x[0-9a-fA-F_]+|0b[01_]+|\d[\d_]*?)_?((?:[iu](?:8|16|32|64|128|size)))?$', v)
            return ('int', int(m.group(1).replace('_', ''), 0), m.group(2))
        if k == 'float':
            self.next(); return ('float', float(re.sub(r'_?f(32|64)$', '', v).replace('_', '')))
        if v == '(' and k == 'op':
            self.next(); es = []
            if self.accept(')'): return ('tuple', [])
            es.append(self.expr())
            if self.accept(')'): return es[0]
            while self.accept(','):
                if self.peek()[1] == ')': break
                es.append(self.expr())
            self.expect(')'); return ('tuple', es)
        if v == 'if' and k == 'id':
            self.next(); c = self.expr(); b1 = self.block(); b2 = None
            if self.accept('else'):
                if self.peek()[1] == 'if': b2 = ('block', [], self.atom())
                else: b2 = self.block()
            return ('if', c, b1, b2)
        if v == 'match' and k == 'id':
            self.next(); scrut = self.expr(); self.expect('{'); arms = []
            while not self.accept('}'):
                pats = [self.pattern()]
                while self.accept('|'): pats.append(self.pattern())
                guard = None
                if self.accept('if'): guard = self.expr()
                self.expect('=>')
                if self.peek()[1] == '{': body = self.block()
                else: body = ('block', [], self.expr())
                self.accept(',')
                arms.append((pats, guard, body))
            return ('match', scrut, arms)
        if v == '{' and k == 'op':
            return ('blockexpr', self.block())
        if k == 'id':
            self.next(); path = [v]
            while self.accept('::'):
                if self.accept('<'):   # turbofish
                    self.ty(); self.expect('>'); continue
                path.append(self.ident())
            if self.peek()[1] == '!' and self.peek(1)[1] == '(':
                # macro: unreachable!(), panic!(..), cfg!(..), matches!(..)
                self.next(); self.next(); depth = 1; inner = []
                while depth:
                    kk, vv = self.next()
                    if vv == '(': depth += 1
                    if vv == ')': depth -= 1
                    if depth: inner.append(vv)
                return ('macro', path[-1], inner)
            if self.accept('('):
                args = []
                while not self.accept(')'):
                    args.append(self.expr()); self.accept(',')
                return ('call', path, args)
            if len(path) == 1: return ('var', v)
            return ('path', path)
        raise Untranslatable("unexpected token %r" % (v,))
    def pattern(self):
        k, v = self.peek()
        if k == 'int':
            self.next(); return ('pint', int(v.replace('_', ''), 0))
        if v == '_': self.next(); return ('pwild',)
        if v == '(':
            self.next(); ps = []
            while not self.accept(')'):
                ps.append(self.pattern()); self.accept(',')
            return ('ptup', ps)
        if k == 'id':
            self.next(); path = [v]
            while self.accept('::'): path.append(self.ident())
            if self.accept('('):
                ps = []
                while not self.accept(')'):
                    ps.append(self.pattern()); self.accept(',')
                return ('pctor', path, ps)
            return ('ppath', path)
        raise Untranslatable("pattern %r" % (v,))

# ----------------------------------------------------------------------------- source extraction
def strip_comments(src):
    return re.sub(r'//[^\n]*', '', re.sub(r'/\*.*?\*/', '', src, flags=re.S))

def extract_fn(src, name, nth=0):
    """text of `fn name(...) ... { ... }` (nth occurrence) by brace matching."""
    src = strip_comments(src)
    ms = list(re.finditer(r'\bfn\s+' + re.escape(name) + r'\s*(?:<[^>]*>)?\s*\(', src))
    if len(ms) <= nth: raise Untranslatable("fn %s not found" % name)
    i = ms[nth].start(); j = src.index('{', i); depth = 0; k = j
    while True:
        if src[k] == '{': depth += 1
        elif src[k] == '}':
            depth -= 1
            if depth == 0: break
        k += 1
    return src[i:k+1]

def parse_fn(src, name, nth=0):
    return P(tokenize(extract_fn(src, name, nth))).fn()

# ----------------------------------------------------------------------------- emission (typed)
class Emit:
    """Translate an expression AST to Gallina text + type + list of obligations (Gallina bools)."""
    def __init__(self, enums=None, consts=None):
        self.enums = enums or {}     # 'ColorType' -> {'Grayscale':0,...}
        self.consts = consts or {}
    def rng(self, t, g):
        lo, hi = INT_TYPES[t]
        return "((%d <=? %s) && (%s <=? %d))" % (lo, g, g, hi)
    def lit_type(self, a, b):
        return a if a else b
    def ex(self, e, env, want=None):
        """returns (gallina, type, obligations[])"""
        k = e[0]
        if k == 'int':
            t = e[2] or want or 'lit'
            return ("%d" % e[1] if e[1] >= 0 else "(%d)" % e[1], t, [])
        if k == 'var':
            if e[1] not in env: raise Untranslatable("unbound variable " + e[1])
            return (env[e[1]][0], env[e[1]][1], [])
        if k == 'path':
            p = e[1]
            if len(p) >= 2 and p[-2] in self.enums and p[-1] in self.enums[p[-2]]:
                return ("%d" % self.enums[p[-2]][p[-1]], 'enum:' + p[-2], [])
            if p[-1] in ('MAX', 'MIN') and p[0] in INT_TYPES:
                return ("(%d)" % INT_TYPES[p[0]][1 if p[-1] == 'MAX' else 0], p[0], [])
            raise Untranslatable("path " + "::".join(p))
        if k == 'neg':
            g, t, o = self.ex(e[1], env, want); r = "(- %s)" % g
            return (r, t, o + ([self.rng(t, r)] if t in INT_TYPES else []))
        if k == 'not':
            g, t, o = self.ex(e[1], env, want)
            if t != 'bool': raise Untranslatable("bitwise not")
            return ("(negb %s)" % g, 'bool', o)
        if k == 'as':
            g, t, o = self.ex(e[1], env)
            tt = e[2]
            if tt not in INT_TYPES: raise Untranslatable("cast to " + str(tt))
            if t == 'bool': return ("(if %s then 1 else 0)" % g, tt, o)
            if t.startswith('enum:') or t == 'lit': return (g, tt, o)
            lo, hi = INT_TYPES[tt]; slo, shi = INT_TYPES[t]
            if lo <= slo and shi <= hi: return (g, tt, o)       # widening: value preserved
            # narrowing / sign change: Rust `as` wraps (two's complement)
            n = hi - lo + 1
            if lo == 0: return ("(%s mod %d)" % (g, n), tt, o)
            return ("(((%s + %d) mod %d) - %d)" % (g, -lo, n, -lo), tt, o)
        if k == 'call':
            p = e[1]
            if len(p) == 2 and p[1] == 'from' and p[0] in INT_TYPES:
                g, t, o = self.ex(e[2][0], env)
                if t == 'bool': return ("(if %s then 1 else 0)" % g, p[0], o)
                if t in INT_TYPES:
                    lo, hi = INT_TYPES[p[0]]; slo, shi = INT_TYPES[t]
                    if not (lo <= slo and shi <= hi): raise Untranslatable("lossy From")
                return (g, p[0], o)
            if len(p) == 1 and p[0] == 'Some':
                g, t, o = self.ex(e[2][0], env, want)
                return ("(Some %s)" % g, 'opt:' + t, o)
            raise Untranslatable("call " + "::".join(p))
        if k == 'method':
            m = e[1]; g, t, o = self.ex(e[2], env, want)
            if m == 'abs':
                r = "(Z.abs %s)" % g
                return (r, t, o + [self.rng(t, r)])
            if m == 'unsigned_abs':
                ut = 'u' + t[1:]
                return ("(Z.abs %s)" % g, ut, o)
            if m in ('min', 'max'):
                g2, t2, o2 = self.ex(e[3][0], env, t)
                return ("(Z.%s %s %s)" % (m, g, g2), t if t != 'lit' else t2, o + o2)
            if m in ('wrapping_add', 'wrapping_sub'):
                g2, t2, o2 = self.ex(e[3][0], env, t)
                lo, hi = INT_TYPES[t]
                if lo != 0: raise Untranslatable("signed wrapping")
                return ("((%s %s %s) mod %d)" % (g, '+' if m == 'wrapping_add' else '-', g2, hi+1), t, o + o2)
            if m == 'saturating_mul':
                g2, t2, o2 = self.ex(e[3][0], env, t); lo, hi = INT_TYPES[t]
                return ("(Z.min (%s * %s) %d)" % (g, g2, hi), t, o + o2)
            if m == 'saturating_add':
                g2, t2, o2 = self.ex(e[3][0], env, t); lo, hi = INT_TYPES[t]
                return ("(Z.min (%s + %s) %d)" % (g, g2, hi), t, o + o2)
            if m == 'saturating_sub':
                g2, t2, o2 = self.ex(e[3][0], env, t); lo, hi = INT_TYPES[t]
                return ("(Z.max (%s - %s) %d)" % (g, g2, lo), t, o + o2)
            if m == 'checked_sub':
                g2, t2, o2 = self.ex(e[3][0], env, t); lo, hi = INT_TYPES[t]
                return ("(if %d <=? %s - %s then Some (%s - %s) else None)" % (lo, g, g2, g, g2), 'opt:' + t, o + o2)
            if m in ('into', 'into_u8', 'into_usize', 'clone'):
                return (g, want if (want and m == 'into') else t, o)
            raise Untranslatable("method " + m)
        if k == 'bin':
            op = e[1]
            if op in ('&&', '||'):
                g1, t1, o1 = self.ex(e[2], env); g2, t2, o2 = self.ex(e[3], env)
                # obligations of the right operand only matter when it is evaluated (short circuit)
                if op == '&&':
                    o2 = ["(negb %s || %s)" % (g1, x) for x in o2]
                    return ("(%s && %s)" % (g1, g2), 'bool', o1 + o2)
                o2 = ["(%s || %s)" % (g1, x) for x in o2]
                return ("(%s || %s)" % (g1, g2), 'bool', o1 + o2)
            g1, t1, o1 = self.ex(e[2], env, want if op not in ('==', '!=', '<', '>', '<=', '>=') else None)
            g2, t2, o2 = self.ex(e[3], env, t1 if t1 != 'lit' else want)
            if t1 == 'lit' and t2 != 'lit':
                g1, t1, o1 = self.ex(e[2], env, t2)
            t = t1 if t1 != 'lit' else t2
            o = o1 + o2
            if op in ('==', '!=', '<', '>', '<=', '>='):
                if t1 == 'bool' or t2 == 'bool':
                    r = "(Bool.eqb %s %s)" % (g1, g2)
                    return (r if op == '==' else "(negb %s)" % r, 'bool', o)
                if t.startswith('opt:'):
                    # Option<uN> ordering: None < Some _
                    if op == '<=':
                        return ("(match %s, %s with Some x__, Some y__ => x__ <=? y__ | None, _ => true | Some _, None => false end)" % (g1, g2), 'bool', o)
                    if op == '>':
                        return ("(negb (match %s, %s with Some x__, Some y__ => x__ <=? y__ | None, _ => true | Some _, None => false end))" % (g1, g2), 'bool', o)
                    raise Untranslatable("option comparison " + op)
                m = {'==': '=?', '<': '<?', '<=': '<=?', '>': '>?', '>=': '>=?'}
                if op == '!=': return ("(negb (%s =? %s))" % (g1, g2), 'bool', o)
                return ("(%s %s %s)" % (g1, m[op], g2), 'bool', o)
            if op in ('+', '-', '*'):
                r = "(%s %s %s)" % (g1, op, g2)
                return (r, t, o + ([self.rng(t, r)] if t in INT_TYPES else []))
            if op in ('/', '%'):
                # Rust: truncating division; on the non-negative values we meet it equals Z.quot/Z.rem
                r = "(Z.%s %s %s)" % ('quot' if op == '/' else 'rem', g1, g2)
                return (r, t, o + ["(negb (%s =? 0))" % g2])
            if op in ('&', '|', '^'):
                if t1 == 'bool': raise Untranslatable("bool bitop")
                f = {'&': 'Z.land', '|': 'Z.lor', '^': 'Z.lxor'}[op]
                return ("(%s %s %s)" % (f, g1, g2), t, o)
            if op == '>>':
                return ("(Z.shiftr %s %s)" % (g1, g2), t1, o)
            if op == '<<':
                r = "(Z.shiftl %s %s)" % (g1, g2)
                lo, hi = INT_TYPES.get(t1, (0, 2**64-1))
                return ("(%s mod %d)" % (r, hi+1), t1, o)    # Rust shl discards high bits
            raise Untranslatable("binop " + op)
        if k == 'if':
            gc, tc, oc = self.ex(e[1], env)
            g1, t1, o1 = self.block(e[2], env, want)
            if e[3] is None: raise Untranslatable("if without else as expression")
            g2, t2, o2 = self.block(e[3], env, want if t1 == 'lit' else t1)
            o = oc + ["(negb %s || %s)" % (gc, x) for x in o1] + ["(%s || %s)" % (gc, x) for x in o2]
            return ("(if %s then %s else %s)" % (gc, g1, g2), t1 if t1 != 'lit' else t2, o)
        if k == 'tuple':
            gs = [self.ex(x, env, want) for x in e[1]]
            return ("(" + ", ".join(g for g, _, _ in gs) + ")", ('tuple', [t for _, t, _ in gs]), sum((o for _, _, o in gs), []))
        if k == 'blockexpr':
            return self.block(e[1], env, want)
        if k == 'match':
            gs, ts, os_ = self.ex(e[1], env)
            arms = []; obs = list(os_); rt = None
            for pats, guard, body in e[2]:
                if guard is not None: raise Untranslatable("match guard")
                gb, tb, ob = self.block(body, env, want)
                if tb != 'never': rt = tb if (rt is None or rt == 'lit') else rt
                pg = " | ".join(self.pat(p) for p in pats)
                arms.append("| %s => %s" % (pg, gb))
                # obligations under the arm condition are kept unconditional only when trivially so
                if ob: raise Untranslatable("arithmetic obligations inside match arm")
            return ("(match %s with %s end)" % (gs, " ".join(arms)), rt, obs)
        if k == 'macro':
            if e[1] in ('unreachable', 'panic'):
                return ("PANIC__", 'never', [])
            raise Untranslatable("macro " + e[1])
        raise Untranslatable("expression kind " + k)
    def pat(self, p):
        if p[0] == 'pint': return "%d" % p[1]
        if p[0] == 'pwild': return "_"
        if p[0] == 'ppath':
            q = p[1]
            if len(q) >= 2 and q[-2] in self.enums: return "%d" % self.enums[q[-2]][q[-1]]
            for en, tab in self.enums.items():
                if q[-1] in tab and len(q) == 1: return "%d" % tab[q[-1]]
        raise Untranslatable("pattern")
    def block(self, b, env, want=None):
        """block -> nested lets; returns (gallina, type, obligations as a single nested-let bool list)"""
        _, stmts, tail = b
        env = dict(env); pre = []; obs_chain = []   # pre: list of "let ... in" strings
        def wrap_ob(o):   # an obligation lives under the lets emitted so far
            return "".join(pre) + o
        for s in stmts:
            if s[0] == 'let':
                g, t, o = self.ex(s[3], env, s[2])
                obs_chain += [wrap_ob(x) for x in o]
                if s[2] and s[2] in INT_TYPES and (t == 'lit'): t = s[2]
                if s[1][0] == 'pvar':
                    n = s[1][1]; pre.append("let %s := %s in " % (n, g)); env[n] = (n, t)
                else:
                    ns = s[1][1]; pre.append("let '(%s) := %s in " % (", ".join(ns), g))
                    for n, tt in zip(ns, t[1]): env[n] = (n, tt)
            elif s[0] == 'assign':
                n = s[1]; g, t, o = self.ex(s[2], env, env[n][1])
                obs_chain += [wrap_ob(x) for x in o]
                pre.append("let %s := %s in " % (n, g))
            elif s[0] == 'ifstmt':
                e = s[1]
                if e[0] != 'if': raise Untranslatable("statement")
                assigned = []
                def collect(bl):
                    for st in bl[1]:
                        if st[0] == 'assign' and st[1] not in assigned: assigned.append(st[1])
                        elif st[0] != 'assign': raise Untranslatable("non-assignment in if statement")
                    if bl[2] is not None: raise Untranslatable("value in if statement")
                collect(e[2])
                if e[3] is not None: collect(e[3])
                gc, tc, oc = self.ex(e[1], env)
                obs_chain += [wrap_ob(x) for x in oc]
                tup = "(" + ", ".join(assigned) + ")" if len(assigned) > 1 else assigned[0]
                def branch(bl):
                    if bl is None: return tup, []
                    lets = []; ob = []
                    for st in bl[1]:
                        g, t, o = self.ex(st[2], env, env[st[1]][1])
                        ob += ["".join(lets) + x for x in o]
                        lets.append("let %s := %s in " % (st[1], g))
                    return "".join(lets) + tup, ob
                b1, o1 = branch(e[2]); b2, o2 = branch(e[3])
                obs_chain += [wrap_ob("(negb %s || (%s))" % (gc, x)) for x in o1]
                obs_chain += [wrap_ob("(%s || (%s))" % (gc, x)) for x in o2]
                lhs = "'(%s)" % ", ".join(assigned) if len(assigned) > 1 else assigned[0]
                pre.append("let %s := (if %s then %s else %s) in " % (lhs, gc, b1, b2))
        if tail is None: raise Untranslatable("block without value")
        g, t, o = self.ex(tail, env, want)
        obs_chain += [wrap_ob(x) for x in o]
        return ("(" + "".join(pre) + g + ")", t, ["(" + x + ")" for x in obs_chain])

def emit_fn(fn, emit, rename=None, extra_env=None):
    _, name, params, ret, body = fn
    name = rename or name
    env = dict(extra_env or {})
    ps = []
    for pn, pt in params:
        env[pn] = (pn, pt if pt in INT_TYPES else ('bool' if pt == 'bool' else 'enum:' + str(pt)))
        ps.append(pn)
    g, t, obs = emit.block(body, env, ret if ret in INT_TYPES else None)
    args = " ".join("(%s : Z)" % p for p in ps)
    out = "Definition %s %s :=\n  %s.\n" % (name, args, g)
    safe = " &&\n  ".join(obs) if obs else "true"
    out += "Definition %s_safe %s : bool :=\n  %s.\n" % (name, args, safe)
    # result range obligation
    if ret in INT_TYPES:
        lo, hi = INT_TYPES[ret]
        out += "Definition %s_ret_lo : Z := %d.\nDefinition %s_ret_hi : Z := %d.\n" % (name, lo, name, hi)
    return out

HEADER = "(* GENERATED by /verif/tools/rs2v.py from %s -- do not edit. *)\nFrom Coq Require Import ZArith Bool List.\nImport ListNotations.\nOpen Scope Z_scope.\nOpen Scope bool_scope.\n\n"

def write_if_changed(path, content):
    old = None
    if os.path.exists(path):
        with open(path) as f: old = f.read()
    if old != content:
        with open(path, 'w') as f: f.write(content)
        return True
    return False

# ----------------------------------------------------------------------------- items
def gen_paeth(src_dir, report):
    src = open(os.path.join(src_dir, 'filter.rs')).read()
    out = HEADER % 'src/filter.rs'
    em = Emit()
    for fname in ['filter_paeth', 'filter_paeth_stbi', 'filter_paeth_stbi_i16', 'filter_paeth_fpnge']:
        try:
            out += emit_fn(parse_fn(src, fname), em) + "\n"
            report[fname] = 'regenerated'
        except Untranslatable as ex:
            report[fname] = 'untranslatable: %s' % ex
            return None
    # which predictor the decoder uses on this target: `if cfg!(target_arch = "x86_64") { A } else { B }`
    s = strip_comments(src)
    m = re.search(r'let\s+filter_paeth_decode\s*=\s*if\s+cfg!\(target_arch\s*=\s*"x86_64"\)\s*\{\s*(\w+)\s*\}\s*else\s*\{\s*(\w+)\s*\}', s)
    if not m:
        report['filter_paeth_decode'] = 'untranslatable: selection expression not found'; return None
    out += "Definition filter_paeth_decode_x86_64 := %s.\nDefinition filter_paeth_decode_other := %s.\n" % (m.group(1), m.group(2))
    report['filter_paeth_decode'] = 'regenerated'
    # encoder predictor: the function called inside filter_internal's Paeth arm
    body = extract_fn(src, 'filter_internal')
    names = set(re.findall(r'wrapping_sub\((filter_paeth\w*)\(', body))
    if len(names) != 1:
        report['filter_paeth_encode'] = 'untranslatable: %s' % sorted(names); return None
    out += "Definition filter_paeth_encode := %s.\n" % names.pop()
    report['filter_paeth_encode'] = 'regenerated'
    # first-row substitution in unfilter: `if filter == Paeth { filter = Sub } else if filter == Up { filter = NoFilter }`
    ub = extract_fn(src, 'unfilter')
    m = re.search(r'if\s+previous\.is_empty\(\)\s*\{\s*if\s+filter\s*==\s*(\w+)\s*\{\s*filter\s*=\s*(\w+);\s*\}\s*else\s+if\s+filter\s*==\s*(\w+)\s*\{\s*filter\s*=\s*(\w+);\s*\}\s*\}', ub)
    enum = {'NoFilter': 0, 'Sub': 1, 'Up': 2, 'Avg': 3, 'Paeth': 4}
    em2 = re.search(r'enum\s+RowFilter\s*\{([^}]*)\}', s)
    if em2:
        enum = {a: int(b) for a, b in re.findall(r'(\w+)\s*=\s*(\d+)', em2.group(1))}
    if not m:
        report['unfilter_first_row_subst'] = 'untranslatable'; return None
    out += "Definition first_row_subst (ft : Z) : Z :=\n  if ft =? %d then %d else if ft =? %d then %d else ft.\n" % (
        enum[m.group(1)], enum[m.group(2)], enum[m.group(3)], enum[m.group(4)])
    report['unfilter_first_row_subst'] = 'regenerated'
    # RowFilter::from_u8
    try:
        f = parse_fn(src, 'from_u8')
        arms = f[4][2][2]
        tab = []
        for pats, guard, body in arms:
            for p in pats:
                if p[0] == 'pint':
                    ctor = body[2]
                    assert ctor[0] == 'call' and ctor[1] == ['Some']
                    tab.append((p[1], enum[ctor[2][0][1][-1]]))
        out += "Definition row_filter_from_u8 (n : Z) : option Z :=\n  " + " ".join(
            "if n =? %d then Some %d else" % (a, b) for a, b in tab) + " None.\n"
        report['RowFilter::from_u8'] = 'regenerated'
    except Exception as ex:
        report['RowFilter::from_u8'] = 'untranslatable: %s' % ex; return None
    # sum_buffer's per-byte weight `(b as i8).unsigned_abs()`
    sb = extract_fn(src, 'sum_buffer')
    if len(re.findall(r'\(b as i8\)\.unsigned_abs\(\)', sb)) == 2:
        out += "Definition sum_weight (b : Z) : Z := Z.abs (((b + 128) mod 256) - 128).\n"
        report['sum_buffer.weight'] = 'regenerated'
    else:
        report['sum_buffer.weight'] = 'untranslatable'; return None
    return out

def rat(e):
    """adam7 init_pass arm expression -> (k, d) meaning ceil((x - k)/d) on the named variable"""
    if e[0] == 'var': return (e[1], 0, 1)
    if e[0] == 'bin' and e[1] == '/':
        v, k, d = rat(e[2]); assert e[3][0] == 'float'
        return (v, k, d * int(e[3][1]))
    if e[0] == 'bin' and e[1] == '-':
        v, k, d = rat(e[2]); assert e[3][0] == 'float' and d == 1
        return (v, k + int(e[3][1]), d)
    raise Untranslatable("init_pass arm shape")

def gen_adam7(src_dir, report):
    src = open(os.path.join(src_dir, 'adam7.rs')).read()
    out = HEADER % 'src/adam7.rs'
    try:
        body0 = extract_fn(src, 'init_pass')
        i0 = body0.index('let (line_width, lines)'); j0 = body0.index('};', i0)
        f = P(tokenize('fn init_pass_tab() { ' + body0[i0:j0+2] + ' 0 }')).fn()
        st = [s for s in f[4][1] if s[0] == 'let' and s[1][0] == 'ptuple'][0]
        m = st[3]; assert m[0] == 'match'
        rows = []
        for pats, guard, body in m[2]:
            if pats[0][0] != 'pint': continue
            tup = body[2]; assert tup[0] == 'tuple'
            (v1, k1, d1), (v2, k2, d2) = rat(tup[1][0]), rat(tup[1][1])
            assert v1 == 'w' and v2 == 'h'
            rows.append((pats[0][1], k1, d1, k2, d2))
        # the conversions around the table must be the expected ones
        body = extract_fn(src, 'init_pass')
        for need in [r'let w = f64::from\(self\.width\)', r'let h = f64::from\(self\.height\)',
                     r'self\.line_width = line_width\.ceil\(\) as u32', r'self\.lines = lines\.ceil\(\) as u32', r'self\.line = 0']:
            if not re.search(need, body): raise Untranslatable("init_pass frame: " + need)
        out += "(* (pass, kw, dw, kh, dh): line_width = sat_u32 (ceil ((w - kw) / dw)), lines = sat_u32 (ceil ((h - kh) / dh)) *)\n"
        out += "Definition init_pass_table : list (Z * (Z * Z * Z * Z)) :=\n  [" + "; ".join("(%d, (%d, %d, %d, %d))" % r for r in rows) + "].\n"
        report['Adam7Iterator::init_pass'] = 'regenerated'
    except (Untranslatable, AssertionError, IndexError) as ex:
        report['Adam7Iterator::init_pass'] = 'untranslatable: %s' % ex; return None
    try:
        body0 = extract_fn(src, 'expand_adam7_bits')
        i0 = body0.index('let (line_mul, line_off, samp_mul, samp_off)'); j0 = body0.index('};', i0)
        f = P(tokenize('fn expand_tab() { ' + body0[i0:j0+2] + ' 0 }')).fn()
        st = [s for s in f[4][1] if s[0] == 'let' and s[1][0] == 'ptuple'][0]
        assert st[1][1] == ['line_mul', 'line_off', 'samp_mul', 'samp_off']
        rows = []
        for pats, guard, body in st[3][2]:
            if pats[0][0] != 'pint': continue
            tup = body[2]; rows.append((pats[0][1],) + tuple(x[1] for x in tup[1]))
        body = extract_fn(src, 'expand_adam7_bits')
        for need in [r'let prog_line = line_mul \* line_no \+ line_off', r'let line_start = prog_line \* row_stride_in_bytes \* 8',
                     r'\.map\(move \|i\| i \* samp_mul \+ samp_off\)', r'\.map\(move \|i\| i \* bits_pp\)',
                     r'\.map\(move \|bits_offset\| bits_offset \+ line_start\)', r'\(0\.\.interlaced_width\)']:
            if not re.search(need, body): raise Untranslatable("expand_adam7_bits frame: " + need)
        out += "Definition expand_table : list (Z * (Z * Z * Z * Z)) :=\n  [" + "; ".join("(%d, (%d, %d, %d, %d))" % r for r in rows) + "].\n"
        report['expand_adam7_bits'] = 'regenerated'
    except (Untranslatable, AssertionError, IndexError) as ex:
        report['expand_adam7_bits'] = 'untranslatable: %s' % ex; return None
    try:
        body = extract_fn(src, 'subbyte_pixels')
        tab = re.findall(r'(\d+)\s*=>\s*\(scanline\[byte_idx\]\s*>>\s*rem\)\s*&\s*(\d+)', body)
        for need in [r'let byte_idx = bit_idx / 8', r'let rem = 8 - bit_idx % 8 - bits_pp', r'\(0\.\.scanline\.len\(\) \* 8\)\s*\.step_by\(bits_pp\)']:
            if not re.search(need, body): raise Untranslatable("subbyte_pixels frame")
        out += "Definition subbyte_mask_table : list (Z * Z) := [" + "; ".join("(%s, %s)" % t for t in tab) + "].\n"
        report['subbyte_pixels'] = 'regenerated'
    except Untranslatable as ex:
        report['subbyte_pixels'] = 'untranslatable: %s' % ex; return None
    try:
        body = extract_fn(src, 'expand_pass')
        b1 = re.sub(r'\s+', ' ', body)
        if not re.search(r'let rem = 8 - pos % 8 - bits_pp;', b1): raise Untranslatable("expand_pass rem")
        if not re.search(r'for \(pos, px\) in bit_indices\.zip\(subbyte_pixels\(interlaced_row, bits_pp\)\)', b1): raise Untranslatable("expand_pass loop")
        if re.search(r'img\[pos / 8\] = \(img\[pos / 8\] & !\(mask << rem as u8\)\) \| \(px << rem as u8\);', b1) and \
           re.search(r'let mask = \(\(1u16 << bits_pp\) - 1\) as u8;', b1):
            out += "Definition subbyte_store (old px bits rem : Z) : Z :=\n  let mask := (Z.shiftl 1 bits - 1) mod 256 in\n  Z.lor (Z.land old (255 - (Z.shiftl mask rem) mod 256)) ((Z.shiftl px rem) mod 256).\n"
        elif re.search(r'img\[pos / 8\] \|= px << rem as u8;', b1):
            out += "Definition subbyte_store (old px bits rem : Z) : Z :=\n  Z.lor old ((Z.shiftl px rem) mod 256).\n"
        else:
            raise Untranslatable("expand_pass sub-byte store expression")
        if not re.search(r'for \(bitpos, px\) in bit_indices\.zip\(interlaced_row\.chunks\(bytes_pp\)\) \{ for \(offset, val\) in px\.iter\(\)\.enumerate\(\) \{ img\[bitpos / 8 \+ offset\] = \*val; \} \}', b1):
            raise Untranslatable("expand_pass byte store loop")
        report['expand_pass.store'] = 'regenerated'
    except Untranslatable as ex:
        report['expand_pass.store'] = 'untranslatable: %s' % ex; return None
    return out

def gen_stream(src_dir, report):
    out = HEADER % 'src/chunk.rs, src/decoder/stream.rs, src/decoder/zlib.rs, src/decoder/mod.rs'
    ck = strip_comments(open(os.path.join(src_dir, 'chunk.rs')).read())
    consts = re.findall(r'pub const (\w+): ChunkType = ChunkType\(\*b"(....)"\);', ck)
    if len(consts) < 22:
        report['chunk.consts'] = 'untranslatable: %d constants' % len(consts); return None
    for n, v in consts:
        b = [ord(c) for c in v]
        out += "Definition ct_%s : Z := %d.  (* %s *)\n" % (n, ((b[0]*256+b[1])*256+b[2])*256+b[3], v)
    report['chunk.consts'] = 'regenerated'
    m = re.search(r'pub fn is_critical\(ChunkType\(type_\): ChunkType\) -> bool \{\s*type_\[0\] & (\d+) == 0\s*\}', ck)
    if not m:
        report['chunk.is_critical'] = 'untranslatable'; return None
    out += "Definition is_critical (ty : Z) : bool := Z.land (ty / 16777216) %s =? 0.\n" % m.group(1)
    report['chunk.is_critical'] = 'regenerated'
    st = strip_comments(open(os.path.join(src_dir, 'decoder', 'stream.rs')).read())
    m = re.search(r'pub const CHUNK_BUFFER_SIZE: usize = ([\d\s\*]+);', st)
    if not m:
        report['CHUNK_BUFFER_SIZE'] = 'untranslatable'; return None
    out += "Definition CHUNK_BUFFER_SIZE : Z := %d.\n" % eval(m.group(1))
    report['CHUNK_BUFFER_SIZE'] = 'regenerated'
    m1 = re.search(r'if bytes == \[(\d+), (\d+), (\d+), (\d+)\] \{\s*self\.state = Some\(State::new_u32\(U32ValueKind::Signature2ndU32\)\)', st)
    m2 = re.search(r'if bytes == \[(\d+), (\d+), (\d+), (\d+)\] \{\s*self\.state = Some\(State::new_u32\(U32ValueKind::Length\)\)', st)
    if not (m1 and m2):
        report['signature'] = 'untranslatable'; return None
    out += "Definition SIG1 : list Z := [%s].\nDefinition SIG2 : list Z := [%s].\n" % ("; ".join(m1.groups()), "; ".join(m2.groups()))
    report['signature'] = 'regenerated'
    m = re.search(r'impl Default for DecodeOptions \{\s*fn default\(\) -> Self \{\s*Self \{\s*ignore_adler32: (\w+),\s*ignore_crc: (\w+),\s*ignore_text_chunk: (\w+),\s*ignore_iccp_chunk: (\w+),\s*skip_ancillary_crc_failures: (\w+),', st)
    if not m:
        report['DecodeOptions::default'] = 'untranslatable'; return None
    out += "Definition default_options : bool * bool * bool * bool * bool := (%s, %s, %s, %s, %s).  (* ignore_adler32, ignore_crc, ignore_text_chunk, ignore_iccp_chunk, skip_ancillary_crc_failures *)\n" % m.groups()
    report['DecodeOptions::default'] = 'regenerated'
    m = re.search(r'matches!\(\s*type_str,\s*((?:chunk::\w+\s*\|?\s*)+)\)', st)
    if not m:
        report['parse_chunk.benign'] = 'untranslatable'; return None
    names = re.findall(r'chunk::(\w+)', m.group(1))
    out += "Definition benign_chunks : list Z := [%s].\n" % "; ".join("ct_" + n for n in names)
    report['parse_chunk.benign'] = 'regenerated'
    zl = strip_comments(open(os.path.join(src_dir, 'decoder', 'zlib.rs')).read())
    m = re.search(r'const LOOKBACK_SIZE: usize = ([^;]+);', zl); m2 = re.search(r'if self\.out_pos > LOOKBACK_SIZE \* ([^{]+?) \{', zl)
    def const_eval(txt):
        # closed integer expressions only: digits, _, + - * / << >> ( ) and `as usize`
        t = txt.replace('as usize', '').replace('_', '').replace('usize', '').strip()
        if not re.fullmatch(r'[\d\s\+\-\*/<>\(\)]+', t): return None
        try: return int(eval(t.replace('/', '//'), {'__builtins__': {}}, {}))
        except Exception: return None
    lb = const_eval(m.group(1)) if m else None
    cf = const_eval(m2.group(1)) if m2 else None
    if lb is None or cf is None:
        report['zlib.constants'] = 'untranslatable'; return None
    out += "Definition LOOKBACK_SIZE : Z := %d.\nDefinition COMPACT_FACTOR : Z := %d.\n" % (lb, cf)
    report['zlib.constants'] = 'regenerated'
    md = strip_comments(open(os.path.join(src_dir, 'decoder', 'mod.rs')).read())
    m = re.search(r'impl Default for Limits \{\s*fn default\(\) -> Limits \{\s*Limits \{\s*bytes: ([\d\s\*]+),', md)
    if not m:
        report['Limits::default'] = 'untranslatable'; return None
    out += "Definition DEFAULT_LIMIT : Z := %d.\n" % eval(m.group(1))
    report['Limits::default'] = 'regenerated'
    tm = strip_comments(open(os.path.join(src_dir, 'text_metadata.rs')).read())
    m = re.search(r'pub const DECOMPRESSION_LIMIT: usize = (\d+);', tm)
    if not m:
        report['DECOMPRESSION_LIMIT'] = 'untranslatable'; return None
    out += "Definition DECOMPRESSION_LIMIT : Z := %s.\n" % m.group(1)
    report['DECOMPRESSION_LIMIT'] = 'regenerated'
    return out

def main():
    src_dir, out_dir = sys.argv[1], sys.argv[2]
    os.makedirs(out_dir, exist_ok=True)
    report = {}
    changed = []
    for fname, gen in [('GenPaeth.v', gen_paeth), ('GenAdam7.v', gen_adam7), ('GenStream.v', gen_stream)]:
        try:
            txt = gen(src_dir, report)
        except Exception as ex:      # any failure of the translator is "untranslatable", never a crash
            txt = None; report[fname] = 'untranslatable: %r' % (ex,)
        if txt is None:
            report[fname + ':file'] = 'kept-previous'
            continue
        if write_if_changed(os.path.join(out_dir, fname), txt): changed.append(fname)
        report[fname + ':file'] = 'written'
    report['_changed'] = changed
    with open(os.path.join(out_dir, 'rs2v_report.json'), 'w') as f:
        json.dump(report, f, indent=1, sort_keys=True)
    print(json.dumps(report, sort_keys=True))

if __name__ == '__main__':
    main()
