#!/usr/bin/env python3
"""Copy confirmed seeded changes from /tmp/seed_out into /verif/seeded/<id>/ (patch.diff, demo.rs, notes.md, meta.json)."""
import json, os, re, shutil, sys
SRC = '/tmp/seed_out'; SRC2 = '/tmp/seed_out2'; SRC3 = '/tmp/seed_out3'; SRC4 = '/tmp/seed_out4'; SRC5 = '/tmp/seed_out5'; SRC6 = '/tmp/seed_out6'; DST = '/verif/seeded'
res = json.load(open('/verif/tools/seed_results.json'))
for key, r in sorted(res.items()):
    p, k = key.split('-')
    d = os.path.join(SRC6 if k == 'i' else SRC5 if k == 'h' else SRC4 if k == 'g' else (SRC3 if k in 'ef' else (SRC2 if k in 'cd' else SRC)), p, k)
    out = os.path.join(DST, key)
    if not os.path.isdir(d):
        d = out   # already saved: refresh meta.json only
    if not os.path.isdir(d):
        print('missing', key); continue
    os.makedirs(out, exist_ok=True)
    for f in ('patch.diff', 'demo.rs', 'notes.md', 'patch_orig.diff'):
        if d != out and os.path.exists(os.path.join(d, f)): shutil.copy(os.path.join(d, f), os.path.join(out, f))
    notes = open(os.path.join(d, 'notes.md')).read() if os.path.exists(os.path.join(d, 'notes.md')) else ''
    title = notes.splitlines()[0].lstrip('# ').strip() if notes else key
    m = re.search(r'##[^\n]*(needed|needs|manifest)[^\n]*\n(.*?)(\n## |\Z)', notes, re.S | re.I)
    needs = m.group(2).strip() if m else ''
    vlog = os.path.join(d, 'verify.log')
    verdict = open(vlog).read().strip().splitlines()[-1] if os.path.exists(vlog) else (json.load(open(os.path.join(out, 'meta.json')))['confirmation']['verdict'] if os.path.exists(os.path.join(out, 'meta.json')) else '')
    meta = {
        'id': key, 'property': p, 'change': title,
        'needs_to_manifest': needs,
        'files_touched': sorted(set(re.findall(r'^\+\+\+ b/(\S+)', open(os.path.join(d, 'patch.diff')).read(), re.M))),
        'confirmation': {
            'what_i_ran': 'tools/verify_seed.sh %s %s (SEED_DIR=/tmp/seed_out2 for c/d): scratch worktree of /repo HEAD under /tmp; cargo test --offline --test seed_demo without the patch (must pass), '
                          'git apply patch.diff, the same demo (must fail), cargo test --offline --workspace with the patch (the 74-test suite must pass); worktree removed' % (p, k),
            'verdict': verdict, 'legend': 'r0 = demo exit status without the change, r1 = with the change (101 = test failed), r2 = existing suite with the change',
        },
        'produced_by': 'fresh sub-agent given only the property text and its own scratch worktree (nothing from /verif)',
        'check_run': 'tools/try_seed.sh seeded/%s/patch.diff %s  (git -C /repo apply; ./check <prop> --tier quick; git -C /repo checkout -- .)' % (key, ' '.join(r['caught_by']) or p),
        'caught_by': r['caught_by'], 'how': r['how'],
    }
    if r.get('superseded'): meta['superseded'] = True
    if os.path.exists(os.path.join(out, 'meta.json')):
        old = json.load(open(os.path.join(out, 'meta.json')))
        for k in ('applies_at', 'applies_at_note'):
            if k in old: meta[k] = old[k]
    json.dump(meta, open(os.path.join(out, 'meta.json'), 'w'), indent=1)
    print(key, 'ok', verdict)
