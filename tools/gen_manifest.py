#!/usr/bin/env python3
"""Regenerates /verif/MANIFEST.json from tools/props.py and properties.jsonl (so it is always valid and current)."""
import json, os, sys, subprocess
VERIF = os.path.dirname(os.path.dirname(os.path.abspath(__file__)))
sys.path.insert(0, os.path.join(VERIF, 'tools'))
from props import PROPS, NOT_APPLICABLE
ids = [json.loads(l)['id'] for l in open(os.path.join(VERIF, 'properties.jsonl'))]
hooks_commits = subprocess.run(['git', '-C', '/repo', 'log', '--format=%H %s'], stdout=subprocess.PIPE).stdout.decode().split('\n')
hook_shas = [l.split()[0] for l in hooks_commits if l and 'verif hooks' in l]
checks = []
for pid in ids:
    if pid not in PROPS or not PROPS[pid].get('claimed', True): continue
    c = PROPS[pid]
    checks.append({
        'property_id': pid,
        'quick_cmd': './check %s --tier quick' % pid,
        'thorough_cmd': './check %s --tier thorough' % pid,
        'evidence_file': '/verif/evidence/%s.json' % pid,
        'replay_cmd_template': './check %s --replay {path}' % pid,
        'engine': 'coq-proof+correspondence',
        'level_claimed': {'category': 'proof', 'text': c['level_text'], 'design_ref': c.get('design_ref', 'DESIGN.md section 0.2 (as built) and section 6 (%s, design-time plan)' % pid)},
        'level_note': c['level_note'],
        'technique': c.get('technique', 'machine-checked proof in Coq 8.16 about a model tied to the source by translator and differential correspondence'),
    })
na = [{'property_id': pid, 'reason': NOT_APPLICABLE.get(pid, 'not yet claimed: the Coq model and check for this property are still being built (see DESIGN.md section 12)')}
      for pid in ids if pid not in PROPS or not PROPS[pid].get('claimed', True)]
m = {
    'version': 1,
    'setup_cmd': './check --setup',
    'hooks': {
        'guard': 'cargo feature verif-hooks (off by default)',
        'enable': 'the harness crate /verif/harness depends on png = { path = "/repo", features = ["verif-hooks", "benchmarks"] }',
        'baseline_off_cmd': 'cd /repo && cargo test --workspace --no-fail-fast --offline',
        'source_commits': hook_shas,
        'add_only': True,
    },
    'engines': [{'name': 'coq-proof+correspondence', 'path': '/verif/check',
                 'serves_properties': [c['property_id'] for c in checks],
                 'kind_free_text': 'Coq 8.16.1 theorems over models in /verif/coq (Gen/ regenerated from /repo/src by tools/rs2v.py on every run; hand models tied by differential execution of the extracted OCaml model against the crate through /verif/harness)'}],
    'checks': checks,
    'notes': 'Every check rebuilds the harness against /repo\'s working tree, regenerates coq/Gen from the source, rebuilds the proofs that depend on what changed, re-extracts the model if needed, and compares implementation, model and specification on the generated cases. See DESIGN.md.',
    'not_applicable': na,
}
json.dump(m, open(os.path.join(VERIF, 'MANIFEST.json'), 'w'), indent=1)
print('MANIFEST.json: %d checks, %d not claimed' % (len(checks), len(na)))
