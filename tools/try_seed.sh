#!/bin/bash
# usage: try_seed.sh <patch.diff> <prop> [<prop>...] : apply a seeded change to /repo, run the given checks, undo it.
P=$1; shift
cd /repo && git apply "$P" || { echo "PATCH DOES NOT APPLY: $P"; exit 2; }
for c in "$@"; do
  (cd /verif && ./check $c --tier quick 2>/tmp/try_seed.err | grep -E "VIOLATION|KNOWN" | cut -c1-200; echo "  -> $c exit ${PIPESTATUS[0]}"; tail -2 /tmp/try_seed.err | cut -c1-300)
done
cd /repo && git checkout -- . && git status --short | head -3
# restore the evidence files of the unchanged tree (a run against a seeded change must never be committed as evidence)
git -C /verif checkout -- evidence 2>/dev/null
